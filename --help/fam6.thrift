include "fam0.thrift"
include "fam2.thrift"
include "fam4.thrift"
include "fam5.thrift"
namespace rs fam.ns0.part0

enum Kind6 { A = 0, B = 1, a_b = 2, AB = 3 }
struct FooBar6 {
  1: optional i32 value_0,
  2: optional string Value0,
  3: optional fam5.FooBar5 prev,
  4: optional Kind6 kind,
  5: optional map<string, list<i64>> m,
}
struct foo_bar6 {
  1: optional i32 value_1,
  2: optional string Value1,
  3: optional fam5.FooBar5 prev,
  4: optional Kind6 kind,
  5: optional map<string, list<i64>> m,
}
struct Foo_Bar6 {
  1: optional i32 value_2,
  2: optional string Value2,
  3: optional fam5.FooBar5 prev,
  4: optional Kind6 kind,
  5: optional map<string, list<i64>> m,
}
struct fooBar6 {
  1: optional i32 value_3,
  2: optional string Value3,
  3: optional fam5.FooBar5 prev,
  4: optional Kind6 kind,
  5: optional map<string, list<i64>> m,
}
struct FOO_BAR6 {
  1: optional i32 value_4,
  2: optional string Value4,
  3: optional fam5.FooBar5 prev,
  4: optional Kind6 kind,
  5: optional map<string, list<i64>> m,
}
struct Common { 1: optional string id, 2: optional Kind kind }
enum Kind { X = 0, Y = 1 }
struct Item { 1: optional Common common, 2: optional list<Common> more }
union U6 { 1: string a, 2: i64 b, 3: FooBar6 c }
exception E6 { 1: string message }
const string NAME6 = "fam6"
const map<string, i32> TABLE6 = {"a": 1, "b": 2, "c": 3}
service Svc6x0 {
  FooBar6 call_0(1: foo_bar6 req, 2: U6 u) throws (1: E6 e),
  void Call0(1: FOO_BAR6 req),
  FooBar6 call_1(1: foo_bar6 req, 2: U6 u) throws (1: E6 e),
  void Call1(1: FOO_BAR6 req),
  FooBar6 call_2(1: foo_bar6 req, 2: U6 u) throws (1: E6 e),
  void Call2(1: FOO_BAR6 req),
  FooBar6 call_3(1: foo_bar6 req, 2: U6 u) throws (1: E6 e),
  void Call3(1: FOO_BAR6 req),
}
service Svc6x1 {
  FooBar6 call_0(1: foo_bar6 req, 2: U6 u) throws (1: E6 e),
  void Call0(1: FOO_BAR6 req),
  FooBar6 call_1(1: foo_bar6 req, 2: U6 u) throws (1: E6 e),
  void Call1(1: FOO_BAR6 req),
  FooBar6 call_2(1: foo_bar6 req, 2: U6 u) throws (1: E6 e),
  void Call2(1: FOO_BAR6 req),
  FooBar6 call_3(1: foo_bar6 req, 2: U6 u) throws (1: E6 e),
  void Call3(1: FOO_BAR6 req),
}
service Svc6x2 {
  FooBar6 call_0(1: foo_bar6 req, 2: U6 u) throws (1: E6 e),
  void Call0(1: FOO_BAR6 req),
  FooBar6 call_1(1: foo_bar6 req, 2: U6 u) throws (1: E6 e),
  void Call1(1: FOO_BAR6 req),
  FooBar6 call_2(1: foo_bar6 req, 2: U6 u) throws (1: E6 e),
  void Call2(1: FOO_BAR6 req),
  FooBar6 call_3(1: foo_bar6 req, 2: U6 u) throws (1: E6 e),
  void Call3(1: FOO_BAR6 req),
}
