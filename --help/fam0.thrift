namespace rs fam.ns0.part0

enum Kind0 { A = 0, B = 1, a_b = 2, AB = 3 }
struct FooBar0 {
  1: optional i32 value_0,
  2: optional string Value0,
  4: optional Kind0 kind,
  5: optional map<string, list<i64>> m,
}
struct foo_bar0 {
  1: optional i32 value_1,
  2: optional string Value1,
  4: optional Kind0 kind,
  5: optional map<string, list<i64>> m,
}
struct Foo_Bar0 {
  1: optional i32 value_2,
  2: optional string Value2,
  4: optional Kind0 kind,
  5: optional map<string, list<i64>> m,
}
struct fooBar0 {
  1: optional i32 value_3,
  2: optional string Value3,
  4: optional Kind0 kind,
  5: optional map<string, list<i64>> m,
}
struct FOO_BAR0 {
  1: optional i32 value_4,
  2: optional string Value4,
  4: optional Kind0 kind,
  5: optional map<string, list<i64>> m,
}
struct Common { 1: optional string id, 2: optional Kind kind }
enum Kind { X = 0, Y = 1 }
struct Item { 1: optional Common common, 2: optional list<Common> more }
union U0 { 1: string a, 2: i64 b, 3: FooBar0 c }
exception E0 { 1: string message }
const string NAME0 = "fam0"
const map<string, i32> TABLE0 = {"a": 1, "b": 2, "c": 3}
service Svc0x0 {
  FooBar0 call_0(1: foo_bar0 req, 2: U0 u) throws (1: E0 e),
  void Call0(1: FOO_BAR0 req),
  FooBar0 call_1(1: foo_bar0 req, 2: U0 u) throws (1: E0 e),
  void Call1(1: FOO_BAR0 req),
  FooBar0 call_2(1: foo_bar0 req, 2: U0 u) throws (1: E0 e),
  void Call2(1: FOO_BAR0 req),
  FooBar0 call_3(1: foo_bar0 req, 2: U0 u) throws (1: E0 e),
  void Call3(1: FOO_BAR0 req),
}
service Svc0x1 {
  FooBar0 call_0(1: foo_bar0 req, 2: U0 u) throws (1: E0 e),
  void Call0(1: FOO_BAR0 req),
  FooBar0 call_1(1: foo_bar0 req, 2: U0 u) throws (1: E0 e),
  void Call1(1: FOO_BAR0 req),
  FooBar0 call_2(1: foo_bar0 req, 2: U0 u) throws (1: E0 e),
  void Call2(1: FOO_BAR0 req),
  FooBar0 call_3(1: foo_bar0 req, 2: U0 u) throws (1: E0 e),
  void Call3(1: FOO_BAR0 req),
}
service Svc0x2 {
  FooBar0 call_0(1: foo_bar0 req, 2: U0 u) throws (1: E0 e),
  void Call0(1: FOO_BAR0 req),
  FooBar0 call_1(1: foo_bar0 req, 2: U0 u) throws (1: E0 e),
  void Call1(1: FOO_BAR0 req),
  FooBar0 call_2(1: foo_bar0 req, 2: U0 u) throws (1: E0 e),
  void Call2(1: FOO_BAR0 req),
  FooBar0 call_3(1: foo_bar0 req, 2: U0 u) throws (1: E0 e),
  void Call3(1: FOO_BAR0 req),
}
