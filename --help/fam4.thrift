include "fam0.thrift"
include "fam2.thrift"
include "fam3.thrift"
namespace rs fam.ns1.part0

enum Kind4 { A = 0, B = 1, a_b = 2, AB = 3 }
struct FooBar4 {
  1: optional i32 value_0,
  2: optional string Value0,
  3: optional fam3.FooBar3 prev,
  4: optional Kind4 kind,
  5: optional map<string, list<i64>> m,
}
struct foo_bar4 {
  1: optional i32 value_1,
  2: optional string Value1,
  3: optional fam3.FooBar3 prev,
  4: optional Kind4 kind,
  5: optional map<string, list<i64>> m,
}
struct Foo_Bar4 {
  1: optional i32 value_2,
  2: optional string Value2,
  3: optional fam3.FooBar3 prev,
  4: optional Kind4 kind,
  5: optional map<string, list<i64>> m,
}
struct fooBar4 {
  1: optional i32 value_3,
  2: optional string Value3,
  3: optional fam3.FooBar3 prev,
  4: optional Kind4 kind,
  5: optional map<string, list<i64>> m,
}
struct FOO_BAR4 {
  1: optional i32 value_4,
  2: optional string Value4,
  3: optional fam3.FooBar3 prev,
  4: optional Kind4 kind,
  5: optional map<string, list<i64>> m,
}
struct Common { 1: optional string id, 2: optional Kind kind }
enum Kind { X = 0, Y = 1 }
struct Item { 1: optional Common common, 2: optional list<Common> more }
union U4 { 1: string a, 2: i64 b, 3: FooBar4 c }
exception E4 { 1: string message }
const string NAME4 = "fam4"
const map<string, i32> TABLE4 = {"a": 1, "b": 2, "c": 3}
service Svc4x0 {
  FooBar4 call_0(1: foo_bar4 req, 2: U4 u) throws (1: E4 e),
  void Call0(1: FOO_BAR4 req),
  FooBar4 call_1(1: foo_bar4 req, 2: U4 u) throws (1: E4 e),
  void Call1(1: FOO_BAR4 req),
  FooBar4 call_2(1: foo_bar4 req, 2: U4 u) throws (1: E4 e),
  void Call2(1: FOO_BAR4 req),
  FooBar4 call_3(1: foo_bar4 req, 2: U4 u) throws (1: E4 e),
  void Call3(1: FOO_BAR4 req),
}
service Svc4x1 {
  FooBar4 call_0(1: foo_bar4 req, 2: U4 u) throws (1: E4 e),
  void Call0(1: FOO_BAR4 req),
  FooBar4 call_1(1: foo_bar4 req, 2: U4 u) throws (1: E4 e),
  void Call1(1: FOO_BAR4 req),
  FooBar4 call_2(1: foo_bar4 req, 2: U4 u) throws (1: E4 e),
  void Call2(1: FOO_BAR4 req),
  FooBar4 call_3(1: foo_bar4 req, 2: U4 u) throws (1: E4 e),
  void Call3(1: FOO_BAR4 req),
}
service Svc4x2 {
  FooBar4 call_0(1: foo_bar4 req, 2: U4 u) throws (1: E4 e),
  void Call0(1: FOO_BAR4 req),
  FooBar4 call_1(1: foo_bar4 req, 2: U4 u) throws (1: E4 e),
  void Call1(1: FOO_BAR4 req),
  FooBar4 call_2(1: foo_bar4 req, 2: U4 u) throws (1: E4 e),
  void Call2(1: FOO_BAR4 req),
  FooBar4 call_3(1: foo_bar4 req, 2: U4 u) throws (1: E4 e),
  void Call3(1: FOO_BAR4 req),
}
