include "fam1.thrift"
include "fam2.thrift"
namespace rs fam.ns0.part1

enum Kind3 { A = 0, B = 1, a_b = 2, AB = 3 }
struct FooBar3 {
  1: optional i32 value_0,
  2: optional string Value0,
  3: optional fam2.FooBar2 prev,
  4: optional Kind3 kind,
  5: optional map<string, list<i64>> m,
}
struct foo_bar3 {
  1: optional i32 value_1,
  2: optional string Value1,
  3: optional fam2.FooBar2 prev,
  4: optional Kind3 kind,
  5: optional map<string, list<i64>> m,
}
struct Foo_Bar3 {
  1: optional i32 value_2,
  2: optional string Value2,
  3: optional fam2.FooBar2 prev,
  4: optional Kind3 kind,
  5: optional map<string, list<i64>> m,
}
struct fooBar3 {
  1: optional i32 value_3,
  2: optional string Value3,
  3: optional fam2.FooBar2 prev,
  4: optional Kind3 kind,
  5: optional map<string, list<i64>> m,
}
struct FOO_BAR3 {
  1: optional i32 value_4,
  2: optional string Value4,
  3: optional fam2.FooBar2 prev,
  4: optional Kind3 kind,
  5: optional map<string, list<i64>> m,
}
struct Common { 1: optional string id, 2: optional Kind kind }
enum Kind { X = 0, Y = 1 }
struct Item { 1: optional Common common, 2: optional list<Common> more }
union U3 { 1: string a, 2: i64 b, 3: FooBar3 c }
exception E3 { 1: string message }
const string NAME3 = "fam3"
const map<string, i32> TABLE3 = {"a": 1, "b": 2, "c": 3}
service Svc3x0 {
  FooBar3 call_0(1: foo_bar3 req, 2: U3 u) throws (1: E3 e),
  void Call0(1: FOO_BAR3 req),
  FooBar3 call_1(1: foo_bar3 req, 2: U3 u) throws (1: E3 e),
  void Call1(1: FOO_BAR3 req),
  FooBar3 call_2(1: foo_bar3 req, 2: U3 u) throws (1: E3 e),
  void Call2(1: FOO_BAR3 req),
  FooBar3 call_3(1: foo_bar3 req, 2: U3 u) throws (1: E3 e),
  void Call3(1: FOO_BAR3 req),
}
service Svc3x1 {
  FooBar3 call_0(1: foo_bar3 req, 2: U3 u) throws (1: E3 e),
  void Call0(1: FOO_BAR3 req),
  FooBar3 call_1(1: foo_bar3 req, 2: U3 u) throws (1: E3 e),
  void Call1(1: FOO_BAR3 req),
  FooBar3 call_2(1: foo_bar3 req, 2: U3 u) throws (1: E3 e),
  void Call2(1: FOO_BAR3 req),
  FooBar3 call_3(1: foo_bar3 req, 2: U3 u) throws (1: E3 e),
  void Call3(1: FOO_BAR3 req),
}
service Svc3x2 {
  FooBar3 call_0(1: foo_bar3 req, 2: U3 u) throws (1: E3 e),
  void Call0(1: FOO_BAR3 req),
  FooBar3 call_1(1: foo_bar3 req, 2: U3 u) throws (1: E3 e),
  void Call1(1: FOO_BAR3 req),
  FooBar3 call_2(1: foo_bar3 req, 2: U3 u) throws (1: E3 e),
  void Call2(1: FOO_BAR3 req),
  FooBar3 call_3(1: foo_bar3 req, 2: U3 u) throws (1: E3 e),
  void Call3(1: FOO_BAR3 req),
}
