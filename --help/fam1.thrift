include "fam0.thrift"
namespace rs fam.ns1.part1

enum Kind1 { A = 0, B = 1, a_b = 2, AB = 3 }
struct FooBar1 {
  1: optional i32 value_0,
  2: optional string Value0,
  3: optional fam0.FooBar0 prev,
  4: optional Kind1 kind,
  5: optional map<string, list<i64>> m,
}
struct foo_bar1 {
  1: optional i32 value_1,
  2: optional string Value1,
  3: optional fam0.FooBar0 prev,
  4: optional Kind1 kind,
  5: optional map<string, list<i64>> m,
}
struct Foo_Bar1 {
  1: optional i32 value_2,
  2: optional string Value2,
  3: optional fam0.FooBar0 prev,
  4: optional Kind1 kind,
  5: optional map<string, list<i64>> m,
}
struct fooBar1 {
  1: optional i32 value_3,
  2: optional string Value3,
  3: optional fam0.FooBar0 prev,
  4: optional Kind1 kind,
  5: optional map<string, list<i64>> m,
}
struct FOO_BAR1 {
  1: optional i32 value_4,
  2: optional string Value4,
  3: optional fam0.FooBar0 prev,
  4: optional Kind1 kind,
  5: optional map<string, list<i64>> m,
}
struct Common { 1: optional string id, 2: optional Kind kind }
enum Kind { X = 0, Y = 1 }
struct Item { 1: optional Common common, 2: optional list<Common> more }
union U1 { 1: string a, 2: i64 b, 3: FooBar1 c }
exception E1 { 1: string message }
const string NAME1 = "fam1"
const map<string, i32> TABLE1 = {"a": 1, "b": 2, "c": 3}
service Svc1x0 {
  FooBar1 call_0(1: foo_bar1 req, 2: U1 u) throws (1: E1 e),
  void Call0(1: FOO_BAR1 req),
  FooBar1 call_1(1: foo_bar1 req, 2: U1 u) throws (1: E1 e),
  void Call1(1: FOO_BAR1 req),
  FooBar1 call_2(1: foo_bar1 req, 2: U1 u) throws (1: E1 e),
  void Call2(1: FOO_BAR1 req),
  FooBar1 call_3(1: foo_bar1 req, 2: U1 u) throws (1: E1 e),
  void Call3(1: FOO_BAR1 req),
}
service Svc1x1 {
  FooBar1 call_0(1: foo_bar1 req, 2: U1 u) throws (1: E1 e),
  void Call0(1: FOO_BAR1 req),
  FooBar1 call_1(1: foo_bar1 req, 2: U1 u) throws (1: E1 e),
  void Call1(1: FOO_BAR1 req),
  FooBar1 call_2(1: foo_bar1 req, 2: U1 u) throws (1: E1 e),
  void Call2(1: FOO_BAR1 req),
  FooBar1 call_3(1: foo_bar1 req, 2: U1 u) throws (1: E1 e),
  void Call3(1: FOO_BAR1 req),
}
service Svc1x2 {
  FooBar1 call_0(1: foo_bar1 req, 2: U1 u) throws (1: E1 e),
  void Call0(1: FOO_BAR1 req),
  FooBar1 call_1(1: foo_bar1 req, 2: U1 u) throws (1: E1 e),
  void Call1(1: FOO_BAR1 req),
  FooBar1 call_2(1: foo_bar1 req, 2: U1 u) throws (1: E1 e),
  void Call2(1: FOO_BAR1 req),
  FooBar1 call_3(1: foo_bar1 req, 2: U1 u) throws (1: E1 e),
  void Call3(1: FOO_BAR1 req),
}
