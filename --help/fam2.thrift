include "fam0.thrift"
include "fam1.thrift"
namespace rs fam.ns2.part0

enum Kind2 { A = 0, B = 1, a_b = 2, AB = 3 }
struct FooBar2 {
  1: optional i32 value_0,
  2: optional string Value0,
  3: optional fam1.FooBar1 prev,
  4: optional Kind2 kind,
  5: optional map<string, list<i64>> m,
}
struct foo_bar2 {
  1: optional i32 value_1,
  2: optional string Value1,
  3: optional fam1.FooBar1 prev,
  4: optional Kind2 kind,
  5: optional map<string, list<i64>> m,
}
struct Foo_Bar2 {
  1: optional i32 value_2,
  2: optional string Value2,
  3: optional fam1.FooBar1 prev,
  4: optional Kind2 kind,
  5: optional map<string, list<i64>> m,
}
struct fooBar2 {
  1: optional i32 value_3,
  2: optional string Value3,
  3: optional fam1.FooBar1 prev,
  4: optional Kind2 kind,
  5: optional map<string, list<i64>> m,
}
struct FOO_BAR2 {
  1: optional i32 value_4,
  2: optional string Value4,
  3: optional fam1.FooBar1 prev,
  4: optional Kind2 kind,
  5: optional map<string, list<i64>> m,
}
struct Common { 1: optional string id, 2: optional Kind kind }
enum Kind { X = 0, Y = 1 }
struct Item { 1: optional Common common, 2: optional list<Common> more }
union U2 { 1: string a, 2: i64 b, 3: FooBar2 c }
exception E2 { 1: string message }
const string NAME2 = "fam2"
const map<string, i32> TABLE2 = {"a": 1, "b": 2, "c": 3}
service Svc2x0 {
  FooBar2 call_0(1: foo_bar2 req, 2: U2 u) throws (1: E2 e),
  void Call0(1: FOO_BAR2 req),
  FooBar2 call_1(1: foo_bar2 req, 2: U2 u) throws (1: E2 e),
  void Call1(1: FOO_BAR2 req),
  FooBar2 call_2(1: foo_bar2 req, 2: U2 u) throws (1: E2 e),
  void Call2(1: FOO_BAR2 req),
  FooBar2 call_3(1: foo_bar2 req, 2: U2 u) throws (1: E2 e),
  void Call3(1: FOO_BAR2 req),
}
service Svc2x1 {
  FooBar2 call_0(1: foo_bar2 req, 2: U2 u) throws (1: E2 e),
  void Call0(1: FOO_BAR2 req),
  FooBar2 call_1(1: foo_bar2 req, 2: U2 u) throws (1: E2 e),
  void Call1(1: FOO_BAR2 req),
  FooBar2 call_2(1: foo_bar2 req, 2: U2 u) throws (1: E2 e),
  void Call2(1: FOO_BAR2 req),
  FooBar2 call_3(1: foo_bar2 req, 2: U2 u) throws (1: E2 e),
  void Call3(1: FOO_BAR2 req),
}
service Svc2x2 {
  FooBar2 call_0(1: foo_bar2 req, 2: U2 u) throws (1: E2 e),
  void Call0(1: FOO_BAR2 req),
  FooBar2 call_1(1: foo_bar2 req, 2: U2 u) throws (1: E2 e),
  void Call1(1: FOO_BAR2 req),
  FooBar2 call_2(1: foo_bar2 req, 2: U2 u) throws (1: E2 e),
  void Call2(1: FOO_BAR2 req),
  FooBar2 call_3(1: foo_bar2 req, 2: U2 u) throws (1: E2 e),
  void Call3(1: FOO_BAR2 req),
}
