include "fam1.thrift"
include "fam3.thrift"
include "fam4.thrift"
namespace rs fam.ns2.part1

enum Kind5 { A = 0, B = 1, a_b = 2, AB = 3 }
struct FooBar5 {
  1: optional i32 value_0,
  2: optional string Value0,
  3: optional fam4.FooBar4 prev,
  4: optional Kind5 kind,
  5: optional map<string, list<i64>> m,
}
struct foo_bar5 {
  1: optional i32 value_1,
  2: optional string Value1,
  3: optional fam4.FooBar4 prev,
  4: optional Kind5 kind,
  5: optional map<string, list<i64>> m,
}
struct Foo_Bar5 {
  1: optional i32 value_2,
  2: optional string Value2,
  3: optional fam4.FooBar4 prev,
  4: optional Kind5 kind,
  5: optional map<string, list<i64>> m,
}
struct fooBar5 {
  1: optional i32 value_3,
  2: optional string Value3,
  3: optional fam4.FooBar4 prev,
  4: optional Kind5 kind,
  5: optional map<string, list<i64>> m,
}
struct FOO_BAR5 {
  1: optional i32 value_4,
  2: optional string Value4,
  3: optional fam4.FooBar4 prev,
  4: optional Kind5 kind,
  5: optional map<string, list<i64>> m,
}
struct Common { 1: optional string id, 2: optional Kind kind }
enum Kind { X = 0, Y = 1 }
struct Item { 1: optional Common common, 2: optional list<Common> more }
union U5 { 1: string a, 2: i64 b, 3: FooBar5 c }
exception E5 { 1: string message }
const string NAME5 = "fam5"
const map<string, i32> TABLE5 = {"a": 1, "b": 2, "c": 3}
service Svc5x0 {
  FooBar5 call_0(1: foo_bar5 req, 2: U5 u) throws (1: E5 e),
  void Call0(1: FOO_BAR5 req),
  FooBar5 call_1(1: foo_bar5 req, 2: U5 u) throws (1: E5 e),
  void Call1(1: FOO_BAR5 req),
  FooBar5 call_2(1: foo_bar5 req, 2: U5 u) throws (1: E5 e),
  void Call2(1: FOO_BAR5 req),
  FooBar5 call_3(1: foo_bar5 req, 2: U5 u) throws (1: E5 e),
  void Call3(1: FOO_BAR5 req),
}
service Svc5x1 {
  FooBar5 call_0(1: foo_bar5 req, 2: U5 u) throws (1: E5 e),
  void Call0(1: FOO_BAR5 req),
  FooBar5 call_1(1: foo_bar5 req, 2: U5 u) throws (1: E5 e),
  void Call1(1: FOO_BAR5 req),
  FooBar5 call_2(1: foo_bar5 req, 2: U5 u) throws (1: E5 e),
  void Call2(1: FOO_BAR5 req),
  FooBar5 call_3(1: foo_bar5 req, 2: U5 u) throws (1: E5 e),
  void Call3(1: FOO_BAR5 req),
}
service Svc5x2 {
  FooBar5 call_0(1: foo_bar5 req, 2: U5 u) throws (1: E5 e),
  void Call0(1: FOO_BAR5 req),
  FooBar5 call_1(1: foo_bar5 req, 2: U5 u) throws (1: E5 e),
  void Call1(1: FOO_BAR5 req),
  FooBar5 call_2(1: foo_bar5 req, 2: U5 u) throws (1: E5 e),
  void Call2(1: FOO_BAR5 req),
  FooBar5 call_3(1: foo_bar5 req, 2: U5 u) throws (1: E5 e),
  void Call3(1: FOO_BAR5 req),
}
