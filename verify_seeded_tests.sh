#!/bin/bash
# For each seeded change: apply it in a scratch worktree, run the repository's test suite, record the summary.
wt=${1:-/tmp/wt-c07}
cd $wt || exit 2
git checkout -q -- . ; git checkout -q --detach main
for d in /verif/seeded/*/; do
  n=$(basename $d)
  [ -f $d/existing_tests_verified.txt ] && continue
  git apply $d/patch.diff || { echo "$n: patch does not apply"; continue; }
  cargo test --workspace --no-fail-fast --offline 2>&1 | grep -E "^test result|^test .*FAILED" > $d/existing_tests_verified.txt
  git checkout -q -- .
  echo "$n: $(grep -c 'test result' $d/existing_tests_verified.txt) result lines; failed tests: $(grep FAILED $d/existing_tests_verified.txt | grep '^test ' | tr '\n' ' ')"
done
