#!/bin/bash
# Determinism self-test: the per-unit trace digests (inputs, schedules, outcomes, polls,
# fired faults) must be bit-identical across processes, with ASLR on and different
# real hash seeds, for several VERIF_SEED values.
set -u
SIM=/verif/target/release/pilota-sim
fail=0
for prop in C12 C07 C09 C19 C10; do
  for seed in 20260101 1 77 123456789; do
    n=40; [ "$prop" = C09 ] && n=6; [ "$prop" = C19 ] && n=6; [ "$prop" = C10 ] && n=12
    a=$($SIM trace --prop $prop --seed $seed --from 0 --to $n 2>&1 | sha256sum)
    b=$($SIM trace --prop $prop --seed $seed --from 0 --to $n 2>&1 | sha256sum)
    c=$(setarch -R $SIM trace --prop $prop --seed $seed --from 0 --to $n 2>&1 | sha256sum)
    if [ "$a" != "$b" ] || [ "$a" != "$c" ]; then echo "NONDETERMINISTIC prop=$prop seed=$seed"; fail=1; else echo "ok prop=$prop seed=$seed units=$n digest=${a:0:16}"; fi
  done
done
# whole-run determinism: the same seed at two worker counts must explore exactly the same
# cases, schedules and outcome states and count exactly the same events
mkdir -p /verif/target/selftest
for prop in C12 C07 C09 C10 C19; do
  n=400; [ "$prop" = C09 ] && n=40; [ "$prop" = C19 ] && n=30; [ "$prop" = C10 ] && n=60
  for w in 16 5; do
    $SIM run --prop $prop --tier quick --units $n --workers $w --checkpoint 1 --seed 424242 --evidence-dir /verif/target/selftest/w$w >/dev/null 2>&1
  done
  a=$(python3 - <<PY
import json
def load(w):
    c=json.load(open('/verif/target/selftest/w%d/$prop.json'%w))['coverage']
    return json.dumps({k:c[k] for k in ('evaluations','distinct_nontrivial','distinct_delivery_schedules','distinct_outcome_states','counters','units')},sort_keys=True)
print('same' if load(16)==load(5) else 'DIFFERENT')
PY
)
  if [ "$a" = same ]; then echo "ok whole-run prop=$prop workers=16 vs 5"; else echo "NONDETERMINISTIC whole-run prop=$prop"; fail=1; fi
done
rm -rf /verif/target/selftest
exit $fail
