#!/bin/bash
# Determinism self-test: the per-unit trace digests (inputs, schedules, outcomes, polls,
# fired faults) must be bit-identical across processes, with ASLR on and different
# real hash seeds, for several VERIF_SEED values.
set -u
SIM=/verif/target/release/pilota-sim
fail=0
for prop in C12 C07 C09 C19 C10; do
  for seed in 20260101 1 77 123456789; do
    n=40; [ "$prop" = C09 ] && n=6; [ "$prop" = C19 ] && n=6; [ "$prop" = C10 ] && n=12
    a=$($SIM trace --prop $prop --seed $seed --from 0 --to $n 2>&1 | sha256sum)
    b=$($SIM trace --prop $prop --seed $seed --from 0 --to $n 2>&1 | sha256sum)
    c=$(setarch -R $SIM trace --prop $prop --seed $seed --from 0 --to $n 2>&1 | sha256sum)
    if [ "$a" != "$b" ] || [ "$a" != "$c" ]; then echo "NONDETERMINISTIC prop=$prop seed=$seed"; fail=1; else echo "ok prop=$prop seed=$seed units=$n digest=${a:0:16}"; fi
  done
done
exit $fail
