// The transport seam: a scripted byte stream (tokio::io::AsyncRead) and the
// single-threaded executor that polls a decoder over it.

use std::collections::BinaryHeap;
use std::future::Future;
use std::io;
use std::pin::Pin;
use std::sync::atomic::{AtomicBool, AtomicU64, Ordering};
use std::sync::{Arc, Mutex};
use std::task::{Context, Poll, RawWaker, RawWakerVTable, Waker};

use tokio::io::{AsyncRead, ReadBuf};

use crate::rng::Rng;

#[derive(Clone, Copy, Debug, PartialEq, Eq, Hash)]
pub enum Ev {
    /// deliver up to n bytes
    Deliver(u32),
    /// return Pending and wake at once
    Pending,
    /// return Pending; the wake arrives k executor ticks later
    Defer(u32),
}

#[derive(Clone, Copy, Debug, PartialEq, Eq, Hash)]
pub enum IoKind {
    Reset,
    Interrupted,
    TimedOut,
    BrokenPipe,
    Other,
}

impl IoKind {
    pub const ALL: [IoKind; 5] = [IoKind::Reset, IoKind::Interrupted, IoKind::TimedOut, IoKind::BrokenPipe, IoKind::Other];
    pub fn to_io(self) -> io::ErrorKind {
        match self {
            IoKind::Reset => io::ErrorKind::ConnectionReset,
            IoKind::Interrupted => io::ErrorKind::Interrupted,
            IoKind::TimedOut => io::ErrorKind::TimedOut,
            IoKind::BrokenPipe => io::ErrorKind::BrokenPipe,
            IoKind::Other => io::ErrorKind::Other,
        }
    }
    pub fn name(self) -> &'static str {
        match self {
            IoKind::Reset => "reset",
            IoKind::Interrupted => "interrupted",
            IoKind::TimedOut => "timedout",
            IoKind::BrokenPipe => "brokenpipe",
            IoKind::Other => "other",
        }
    }
    pub fn from_name(s: &str) -> Option<IoKind> {
        IoKind::ALL.iter().copied().find(|k| k.name() == s)
    }
}

/// Explicit delivery schedule. Stored in traces and replay files, so a
/// minimised schedule replays without a PRNG.
#[derive(Clone, Debug, PartialEq, Eq, Hash, Default)]
pub struct Schedule {
    pub evs: Vec<Ev>,
    /// once `evs` is used up every poll delivers this many bytes (0 = whatever fits)
    pub tail: u32,
    /// inject an I/O error when the read position reaches this byte offset
    pub io_error: Option<(usize, IoKind)>,
}

impl Schedule {
    pub fn whole() -> Self {
        Schedule { evs: vec![], tail: 0, io_error: None }
    }
    pub fn bytewise() -> Self {
        Schedule { evs: vec![], tail: 1, io_error: None }
    }
    pub fn split_at(k: usize) -> Self {
        Schedule { evs: vec![Ev::Deliver(k as u32)], tail: 0, io_error: None }
    }
    pub fn digest(&self) -> u64 {
        let mut parts: Vec<u64> = Vec::with_capacity(self.evs.len() + 3);
        for e in &self.evs {
            parts.push(match e {
                Ev::Deliver(n) => (*n as u64) << 2,
                Ev::Pending => 1,
                Ev::Defer(k) => ((*k as u64) << 2) | 2,
            });
        }
        parts.push(0xFFFF_0000 | self.tail as u64);
        if let Some((p, k)) = self.io_error {
            parts.push(((p as u64) << 8) | k as u64 | 0x8000_0000_0000_0000);
        }
        crate::rng::mix(&parts)
    }
    pub fn pending_events(&self) -> usize {
        self.evs.iter().filter(|e| !matches!(e, Ev::Deliver(_))).count()
    }

    /// Seeded multi-split schedule for a message of `len` bytes.
    pub fn random(r: &mut Rng, len: usize, pending_pct: u64) -> Self {
        let mut evs = vec![];
        let style = r.below(5);
        let mut covered = 0usize;
        let cap = 512usize;
        while covered < len && evs.len() < cap {
            if r.below(100) < pending_pct {
                if r.chance(1, 3) {
                    evs.push(Ev::Defer(r.range(1, 9) as u32));
                } else {
                    evs.push(Ev::Pending);
                }
                continue;
            }
            let n = match style {
                0 => 1,
                1 => r.range(1, 3),
                2 => r.range(1, 9),
                3 => r.range(1, 64),
                _ => *r.pick(&[1u64, 1, 2, 3, 4, 7, 8, 9, 15, 16, 17, 100, 4096]),
            } as usize;
            evs.push(Ev::Deliver(n as u32));
            covered += n;
        }
        let tail = *r.pick(&[0u32, 1, 2, 5]);
        Schedule { evs, tail, io_error: None }
    }
}

pub struct Clock {
    pub tick: AtomicU64,
    seq: AtomicU64,
    queue: Mutex<BinaryHeap<std::cmp::Reverse<(u64, u64)>>>,
    woken: AtomicBool,
}

impl Clock {
    pub fn new() -> Arc<Clock> {
        Arc::new(Clock { tick: AtomicU64::new(0), seq: AtomicU64::new(0), queue: Mutex::new(BinaryHeap::new()), woken: AtomicBool::new(false) })
    }
    fn defer(&self, k: u64) {
        let at = self.tick.load(Ordering::Relaxed) + k;
        let s = self.seq.fetch_add(1, Ordering::Relaxed);
        self.queue.lock().unwrap().push(std::cmp::Reverse((at, s)));
    }
}

#[derive(Clone, Debug, Default)]
pub struct StreamStats {
    pub polls: u64,
    pub short_reads: u64,
    pub pendings: u64,
    pub deferred: u64,
    pub eof_hits: u64,
    pub io_errors: u64,
    /// a Pending was returned while the caller's buffer was partly filled by an
    /// earlier poll of the same read (i.e. Pending landed inside a multi-byte read)
    pub pending_inside_read: u64,
    /// a multi-byte read was satisfied by more than one delivery
    pub split_reads: u64,
}

pub struct SimStream {
    pub data: Vec<u8>,
    pub pos: usize,
    sched: Schedule,
    next_ev: usize,
    clock: Arc<Clock>,
    pub stats: StreamStats,
    /// size of the ReadBuf seen at the previous poll, to detect a read that continues
    last_remaining: usize,
    last_was_partial: bool,
    errored: bool,
}

impl SimStream {
    pub fn new(data: Vec<u8>, sched: Schedule, clock: Arc<Clock>) -> Self {
        SimStream { data, pos: 0, sched, next_ev: 0, clock, stats: StreamStats::default(), last_remaining: 0, last_was_partial: false, errored: false }
    }
    pub fn bytes_pulled(&self) -> usize {
        self.pos
    }
}

impl AsyncRead for SimStream {
    fn poll_read(mut self: Pin<&mut Self>, cx: &mut Context<'_>, buf: &mut ReadBuf<'_>) -> Poll<io::Result<()>> {
        let this = &mut *self;
        this.stats.polls += 1;
        let want = buf.remaining();
        if want == 0 {
            return Poll::Ready(Ok(()));
        }
        // a continued read: the previous poll delivered part of a larger request
        let continuing = this.last_was_partial && want == this.last_remaining;
        if let Some((at, kind)) = this.sched.io_error {
            if this.pos >= at || this.errored {
                this.errored = true;
                this.stats.io_errors += 1;
                return Poll::Ready(Err(io::Error::new(kind.to_io(), "simulated I/O error")));
            }
        }
        let ev = if this.next_ev < this.sched.evs.len() {
            let e = this.sched.evs[this.next_ev];
            this.next_ev += 1;
            e
        } else {
            Ev::Deliver(this.sched.tail)
        };
        match ev {
            Ev::Pending => {
                this.stats.pendings += 1;
                if continuing {
                    this.stats.pending_inside_read += 1;
                }
                cx.waker().wake_by_ref();
                Poll::Pending
            }
            Ev::Defer(k) => {
                this.stats.pendings += 1;
                this.stats.deferred += 1;
                if continuing {
                    this.stats.pending_inside_read += 1;
                }
                this.clock.defer(k.max(1) as u64);
                Poll::Pending
            }
            Ev::Deliver(n) => {
                let left = this.data.len() - this.pos;
                if left == 0 {
                    this.stats.eof_hits += 1;
                    this.last_was_partial = false;
                    return Poll::Ready(Ok(())); // EOF
                }
                let mut n = if n == 0 { want } else { (n as usize).min(want) };
                n = n.min(left);
                // never deliver past a scheduled I/O error position
                if let Some((at, _)) = this.sched.io_error {
                    if at > this.pos {
                        n = n.min(at - this.pos);
                    }
                }
                buf.put_slice(&this.data[this.pos..this.pos + n]);
                this.pos += n;
                if n < want {
                    this.stats.short_reads += 1;
                    this.last_was_partial = true;
                    this.last_remaining = want - n;
                } else {
                    this.last_was_partial = false;
                }
                if continuing {
                    this.stats.split_reads += 1;
                }
                Poll::Ready(Ok(()))
            }
        }
    }
}

// ---------------------------------------------------------------- executor

fn raw_waker(c: *const Clock) -> RawWaker {
    unsafe fn clone(p: *const ()) -> RawWaker {
        let a = Arc::from_raw(p as *const Clock);
        let b = a.clone();
        std::mem::forget(a);
        RawWaker::new(Arc::into_raw(b) as *const (), &VTABLE)
    }
    unsafe fn wake(p: *const ()) {
        let a = Arc::from_raw(p as *const Clock);
        a.woken.store(true, Ordering::Relaxed);
    }
    unsafe fn wake_by_ref(p: *const ()) {
        let a = &*(p as *const Clock);
        a.woken.store(true, Ordering::Relaxed);
    }
    unsafe fn drop_(p: *const ()) {
        drop(Arc::from_raw(p as *const Clock));
    }
    static VTABLE: RawWakerVTable = RawWakerVTable::new(clone, wake, wake_by_ref, drop_);
    RawWaker::new(c as *const (), &VTABLE)
}

pub enum ExecResult<T> {
    Done { out: T, polls: u64, ticks: u64 },
    /// the future was still pending after `budget` polls
    OverBudget { polls: u64 },
    /// the future returned Pending without arranging any wake-up
    LostWake { polls: u64 },
}

/// Poll `fut` to completion on the calling thread. No tokio runtime is involved.
pub fn run<F: Future>(clock: &Arc<Clock>, fut: F, budget: u64) -> ExecResult<F::Output> {
    let waker = unsafe { Waker::from_raw(raw_waker(Arc::into_raw(clock.clone()))) };
    let mut cx = Context::from_waker(&waker);
    let mut fut = std::pin::pin!(fut);
    let mut polls = 0u64;
    loop {
        if polls >= budget {
            return ExecResult::OverBudget { polls };
        }
        polls += 1;
        clock.woken.store(false, Ordering::Relaxed);
        if let Poll::Ready(out) = fut.as_mut().poll(&mut cx) {
            return ExecResult::Done { out, polls, ticks: clock.tick.load(Ordering::Relaxed) };
        }
        if clock.woken.load(Ordering::Relaxed) {
            clock.tick.fetch_add(1, Ordering::Relaxed);
            continue;
        }
        // nothing runnable: jump the clock to the next deferred wake
        let next = clock.queue.lock().unwrap().pop();
        match next {
            Some(std::cmp::Reverse((at, _))) => {
                let now = clock.tick.load(Ordering::Relaxed);
                clock.tick.store(at.max(now + 1), Ordering::Relaxed);
            }
            None => return ExecResult::LostWake { polls },
        }
    }
}
