// Units: one unit = one base input (value, protocol, level) drawn from the
// run PRNG plus every case (fault x schedule) derived from it. A unit's case
// list is a pure function of (seed, property, unit index, tier).

use crate::case::{Case, Level};
use crate::legs::GenType;
use crate::refenc::*;
use crate::rng::Rng;
use crate::stream::{IoKind, Schedule};
use crate::tval::*;

#[derive(Clone, Copy, PartialEq, Eq, Debug)]
pub enum Tier {
    Quick,
    Thorough,
}

pub struct World {
    pub schema: Schema,
    pub gens: Vec<GenType>,
    pub pcorpus: crate::pcorpus_def::PCorpus,
}

impl World {
    pub fn new() -> Self {
        World { schema: Schema::new(), gens: crate::legs::gen_types(), pcorpus: crate::pcorpus_def::pcorpus() }
    }
}

pub struct Base {
    pub proto: Proto,
    pub level: Level,
    pub bytes: Vec<u8>,
    pub spans: Vec<Span>,
    pub note: String,
    /// the main value (None for raw-byte bases)
    pub tv: Option<TV>,
    /// the bytes are a valid encoding *of the declared type*: no field was retyped by the
    /// writer-schema variation (undeclared extra fields are fine, they are skipped by wire type)
    pub conforming: bool,
}

pub fn prop_tag(prop: &str) -> u64 {
    crate::rng::hash_str(prop)
}

fn encode_trailer(proto: Proto) -> Vec<u8> {
    encode_value(proto, &crate::eval::trailer_tv(), Style::default()).out
}

fn pick_proto(r: &mut Rng) -> Proto {
    *r.pick(&[Proto::Binary, Proto::Binary, Proto::BinaryLE, Proto::Compact, Proto::Compact])
}

#[derive(Clone, Copy)]
pub struct Mix {
    pub gen: u64,
    pub prim: u64,
    pub envelope: u64,
    /// allow containers of more than 65536 one-byte elements (affordable only where faults are not enumerated per byte)
    pub huge: bool,
}

/// Draw a base input.
pub fn gen_base(w: &World, r: &mut Rng, mix: Mix, proto: Option<Proto>) -> Base {
    let proto = proto.unwrap_or_else(|| pick_proto(r));
    let mut knobs = Knobs::swarm(r);
    knobs.huge = mix.huge && r.chance(1, 10);
    let long_form = Style::new(r.chance(1, 8), r.below(14));
    let total = mix.gen + mix.prim + mix.envelope;
    let x = r.below(total);
    if x < mix.gen {
        // the runtime's only hand-written Message decoder gets a fixed share, and long messages
        let rt_exc = r.chance(1, 25);
        let g = if rt_exc { w.gens.iter().find(|g| g.name == "rt::ApplicationException").unwrap_or(&w.gens[0]) } else { r.pick(&w.gens) };
        let mut knobs = knobs;
        if rt_exc {
            knobs.max_str = *r.pick(&[40usize, 1100, 2100, 5000]);
        }
        let def = w.schema.get(g.schema).expect("schema for gen type").clone();
        let ev = Evolve::swarm(r);
        let tv = if is_recursive(&w.schema, def.name) && r.chance(1, 3) {
            // a deep spine through the recursive fields (errors many generated-struct levels deep)
            // mostly 8..40 levels, sometimes beyond every fixed-size table a reader might keep (64, 128)
            let d = if r.chance(1, 5) { r.range(60, 140) } else { r.range(8, 40) } as usize;
            spine(&w.schema, r, def.name, d)
        } else {
            let mut cx = GenCtx::new(r, knobs);
            cx.of_struct(&w.schema, &ev, &def, 1)
        };
        let mut b = 60;
        if r.chance(1, 6) {
            // the service-call flow: message envelope, then the generated body, read with one protocol instance
            let name_len = *r.pick(&[0usize, 4, 15, 16, 40]);
            let name: Vec<u8> = (0..name_len).map(|_| b'a' + r.below(26) as u8).collect();
            let mut e = Enc::new(proto);
            e.style(long_form);
            e.message_begin(&name, r.range(1, 4) as u8, r.next() as i32);
            e.value(&tv);
            return Base { proto, level: Level::Gen(format!("call::{}", g.name)), bytes: e.out, spans: e.spans, note: format!("call[{}] {}", name_len, tv.brief(&mut b)), tv: Some(tv), conforming: false };
        }
        let e = encode_value(proto, &tv, long_form);
        Base { proto, level: Level::Gen(g.name.to_string()), bytes: e.out, spans: e.spans, note: tv.brief(&mut b), tv: Some(tv), conforming: ev.retype_pct == 0 }
    } else if x < mix.gen + mix.prim {
        let mut cx = GenCtx::new(r, knobs);
        let t = cx.any_type();
        let tv = cx.any_of_type(t, 1);
        let e = encode_value(proto, &tv, long_form);
        let mut b = 60;
        Base { proto, level: Level::Prim(t), bytes: e.out, spans: e.spans, note: tv.brief(&mut b), tv: Some(tv), conforming: true }
    } else {
        let name_len = *r.pick(&[0usize, 1, 4, 15, 16, 200]);
        let name: Vec<u8> = (0..name_len).map(|_| b'a' + r.below(26) as u8).collect();
        let mtype = r.range(1, 4) as u8;
        let seq = match r.below(4) {
            0 => 0,
            1 => -1,
            2 => i32::MAX,
            _ => r.next() as i32,
        };
        if r.chance(1, 3) {
            // a connection: three messages in a row on one protocol instance, the names getting shorter,
            // empty and longer again (whatever the reader keeps from one message must not show in the next)
            let l1 = *r.pick(&[4usize, 14, 16, 40, 200, 300]);
            let l2 = if r.chance(1, 3) { 0 } else { r.below(l1 as u64) as usize };
            let l3 = r.range(0, 40) as usize;
            let mut e = Enc::new(proto);
            e.style(long_form);
            let mut notes = vec![];
            let mut first = None;
            for (k, l) in [l1, l2, l3].into_iter().enumerate() {
                let nm: Vec<u8> = (0..l).map(|_| b'a' + r.below(26) as u8).collect();
                let mut cx = GenCtx::new(r, Knobs::small());
                let body = cx.any_of_type(T_STRUCT, 1);
                e.message_begin(&nm, r.range(1, 4) as u8, (k as i32 + 1) * 1000 + r.below(100) as i32);
                e.value(&body);
                notes.push(format!("{}", l));
                if first.is_none() {
                    first = Some(body);
                }
            }
            return Base { proto, level: Level::Envelopes, bytes: e.out, spans: e.spans, note: format!("msgs[{}]", notes.join(",")), tv: first, conforming: false };
        }
        let mut cx = GenCtx::new(r, knobs);
        let tv = cx.any_of_type(T_STRUCT, 1);
        let mut e = Enc::new(proto);
        e.style(long_form);
        e.message_begin(&name, mtype, seq);
        e.value(&tv);
        let mut b = 40;
        Base { proto, level: Level::Envelope, bytes: e.out, spans: e.spans, note: format!("msg[{}] t{} seq{} {}", name_len, mtype, seq, tv.brief(&mut b)), tv: Some(tv), conforming: true }
    }
}

fn mk_case(prop: &str, b: &Base, unit: u64) -> Case {
    Case {
        prop: prop.to_string(),
        proto: b.proto,
        level: b.level.clone(),
        bytes: vec![],
        valid_len: None,
        expect_refused: None,
        strict_prefix: false,
        expect: None,
        sched: Schedule::whole(),
        run_mem: true,
        run_stream: true,
        fault: String::new(),
        fault_kind: "none".into(),
        note: b.note.clone(),
        unit,
        idx: 0,
        prior: None,
    }
}

fn pending_pct(r: &mut Rng) -> u64 {
    *r.pick(&[0u64, 10, 50, 90])
}

/// Positions where a truncation / EOF / I/O error is most interesting: around
/// the boundaries of the layout spans, plus uniformly drawn ones.
fn fault_positions(r: &mut Rng, b: &Base, n: usize) -> Vec<usize> {
    let len = b.bytes.len();
    let mut v = vec![];
    if len == 0 {
        return vec![0];
    }
    for _ in 0..n {
        let p = if !b.spans.is_empty() && r.chance(2, 3) {
            let sp = r.pick(&b.spans);
            match r.below(5) {
                0 => sp.start,
                1 => sp.end,
                2 => sp.start + (sp.end - sp.start) / 2,
                3 => sp.end.saturating_sub(1),
                _ => sp.end + 1,
            }
        } else if r.chance(1, 4) {
            len - 1
        } else {
            r.below(len as u64) as usize
        };
        v.push(p.min(len - 1));
    }
    v.sort_unstable();
    v.dedup();
    v
}

// ------------------------------------------------------------------- C12

pub fn unit_c12(w: &World, seed: u64, unit: u64, tier: Tier) -> Vec<Case> {
    let prop = "C12";
    let mut r = Rng::derive(seed, &[prop_tag(prop), unit]);
    let b = gen_base(w, &mut r, Mix { gen: 50, prim: 40, envelope: 10, huge: true }, None);
    let mut out: Vec<Case> = vec![];
    let len = b.bytes.len();
    let mut vb = b.bytes.clone();
    vb.extend_from_slice(&encode_trailer(b.proto));
    let ppct = pending_pct(&mut r);

    let valid = |sched: Schedule, kind: &str| -> Case {
        let mut c = mk_case(prop, &b, unit);
        c.bytes = vb.clone();
        c.valid_len = Some(len);
        c.sched = sched;
        c.fault_kind = kind.into();
        c
    };
    out.push(valid(Schedule::whole(), "sched_whole"));
    // (one byte at a time costs a poll per byte: not for the rare messages of tens of kilobytes)
    if len <= 20_000 {
        out.push(valid(Schedule::bytewise(), "sched_bytewise"));
    }
    {
        // the message alone, nothing after it (end of stream right at the message end)
        let mut c = mk_case(prop, &b, unit);
        c.bytes = b.bytes.clone();
        c.valid_len = Some(len);
        c.sched = Schedule::random(&mut r, len.max(1), ppct);
        c.fault_kind = "sched_no_tail".into();
        out.push(c);
    }
    // every single split point for short messages, a sample otherwise
    let exhaustive_max = if tier == Tier::Thorough { 512 } else { 96 };
    if len >= 2 {
        if len <= exhaustive_max {
            for k in 1..len {
                out.push(valid(Schedule::split_at(k), "sched_single_split"));
            }
        } else {
            for k in fault_positions(&mut r, &b, 32) {
                if k >= 1 {
                    out.push(valid(Schedule::split_at(k), "sched_single_split"));
                }
            }
        }
    }
    let nrand = if tier == Tier::Thorough { 24 } else { 8 };
    for _ in 0..nrand {
        out.push(valid(Schedule::random(&mut r, vb.len(), ppct), "sched_random"));
    }
    // truncations: the same prefix on both legs, then EOF
    let ntr = if tier == Tier::Thorough { 24 } else { 8 };
    for k in fault_positions(&mut r, &b, ntr) {
        let mut c = mk_case(prop, &b, unit);
        c.bytes = b.bytes[..k].to_vec();
        c.sched = Schedule::random(&mut r, k.max(1), ppct);
        c.fault = format!("truncate@{}", k);
        c.fault_kind = "eof_truncate".into();
        out.push(c);
    }
    // single bit flips
    let nfl = if tier == Tier::Thorough { 24 } else { 8 };
    if len > 0 {
        for _ in 0..nfl {
            let pos = if !b.spans.is_empty() && r.chance(1, 2) {
                let sp = r.pick(&b.spans);
                (sp.start + r.below((sp.end - sp.start).max(1) as u64) as usize).min(len - 1)
            } else {
                r.below(len as u64) as usize
            };
            let bit = r.below(8) as u8;
            let mut c = mk_case(prop, &b, unit);
            c.bytes = b.bytes.clone();
            c.bytes[pos] ^= 1 << bit;
            c.sched = Schedule::random(&mut r, len, ppct);
            c.fault = format!("flip@{}.{}", pos, bit);
            c.fault_kind = "bit_flip".into();
            out.push(c);
        }
    }
    for (i, c) in out.iter_mut().enumerate() {
        c.idx = i as u64;
    }
    out
}

// ------------------------------------------------------------------- C07

fn chain_bytes(proto: Proto, depth: usize) -> Vec<u8> {
    // `depth` nested structs, each holding the next one in field 1; built
    // without a value tree so that 100 000 levels cost no recursion.
    let mut v = Vec::with_capacity(depth * 4);
    for _ in 1..depth {
        match proto {
            Proto::Binary => v.extend_from_slice(&[T_STRUCT, 0, 1]),
            Proto::BinaryLE => v.extend_from_slice(&[T_STRUCT, 1, 0]),
            Proto::Compact => v.push(0x1C),
        }
    }
    v.extend(std::iter::repeat(0u8).take(depth));
    v
}

pub fn unit_c07(w: &World, seed: u64, unit: u64, tier: Tier) -> Vec<Case> {
    let prop = "C07";
    let _ = w;
    let mut r = Rng::derive(seed, &[prop_tag(prop), unit]);
    let proto = pick_proto(&mut r);
    let mut out: Vec<Case> = vec![];
    let ppct = pending_pct(&mut r);
    let trailer = encode_trailer(proto);
    let nrand = if tier == Tier::Thorough { 12 } else { 4 };

    let flavour = r.below(10);
    if flavour < 6 {
        // an arbitrary value of an arbitrary wire type
        let knobs = Knobs::swarm(&mut r);
        let long_form = Style::new(r.chance(1, 8), r.below(14));
        let mut cx = GenCtx::new(&mut r, knobs);
        let t = cx.any_type();
        let tv = cx.any_of_type(t, 1);
        let e = encode_value(proto, &tv, long_form);
        let mut bb = 60;
        let note = tv.brief(&mut bb);
        let base = Base { proto, level: Level::Skip(t), bytes: e.out.clone(), spans: e.spans, note: note.clone(), tv: None, conforming: true };
        let len = base.bytes.len();
        let mut vb = base.bytes.clone();
        vb.extend_from_slice(&trailer);
        let mut scheds = vec![Schedule::whole(), Schedule::bytewise()];
        if len >= 2 && len <= 64 {
            for k in 1..len {
                scheds.push(Schedule::split_at(k));
            }
        }
        for _ in 0..nrand {
            scheds.push(Schedule::random(&mut r, vb.len(), ppct));
        }
        for (i, s) in scheds.into_iter().enumerate() {
            let mut c = mk_case(prop, &base, unit);
            c.bytes = vb.clone();
            c.valid_len = Some(len);
            c.sched = s;
            c.run_mem = i == 0; // the in-memory half has one schedule
            c.fault_kind = "skip_value".into();
            out.push(c);
        }
        // "arbitrary trailing data" includes none at all and a single byte
        for extra in [0usize, 1] {
            let mut c = mk_case(prop, &base, unit);
            c.bytes = base.bytes.clone();
            c.bytes.extend(std::iter::repeat(0u8).take(extra));
            c.valid_len = Some(len);
            c.sched = if extra == 0 { Schedule::whole() } else { Schedule::bytewise() };
            c.fault_kind = "skip_value_short_tail".into();
            out.push(c);
        }
        // the same value as an unknown field followed by a sibling field
        let ida: i16 = *r.pick(&[1i16, 2, 7, 15, 16, 100, 3000, -3]);
        let idb: i16 = if r.chance(3, 4) { ida.saturating_add(r.range(1, 15) as i16) } else { *r.pick(&[1i16, 500, -9, 32767]) };
        let sentinel = TV::I64(0x0123_4567_89AB_CDEFu64 as i64 ^ unit as i64);
        let st = TV::Struct(vec![(ida, tv.clone()), (idb, sentinel.clone())]);
        let se = encode_value(proto, &st, long_form);
        let xlen = encoded_len_as_field_value(proto, &tv, long_form);
        let expect = format!("{:?}", TV::Struct(vec![(ida, TV::I64(xlen as i64)), (idb, sentinel.clone())]));
        let slen = se.out.len();
        let mut svb = se.out.clone();
        svb.extend_from_slice(&trailer);
        let fbase = Base { proto, level: Level::SkipField, bytes: se.out.clone(), spans: vec![], note: format!("{{{}:{},{}:S}}", ida, note, idb), tv: None, conforming: true };
        let mut scheds = vec![Schedule::whole(), Schedule::bytewise()];
        for _ in 0..nrand {
            scheds.push(Schedule::random(&mut r, svb.len(), ppct));
        }
        for (i, s) in scheds.into_iter().enumerate() {
            let mut c = mk_case(prop, &fbase, unit);
            c.bytes = svb.clone();
            c.valid_len = Some(slen);
            c.expect = Some(expect.clone());
            c.sched = s;
            c.run_mem = i == 0;
            c.fault_kind = "skip_field".into();
            out.push(c);
        }
        if proto == Proto::Binary {
            let mut c = mk_case(prop, &fbase, unit);
            c.level = Level::SkipUnchecked;
            c.bytes = se.out.clone();
            c.valid_len = Some(slen);
            c.expect = Some(expect.clone());
            c.run_stream = false;
            c.fault_kind = "skip_unchecked".into();
            out.push(c);
        }
        // the same skips right after a refused one: the enclosing struct again, with the type byte of its
        // deepest nested field header made invalid (the reader stops there, inside open containers)
        // (compact: the field header byte; binary: the type byte that starts a field header)
        let hdr_kind = if proto == Proto::Compact { SpanKind::FieldHdr } else { SpanKind::Type };
        if let Some(sp) = se.spans.iter().filter(|x| x.kind == hdr_kind && x.depth >= 1 && x.end == x.start + 1).max_by_key(|x| x.depth) {
            let mut poison = se.out.clone();
            match proto {
                Proto::Compact => poison[sp.start] = (poison[sp.start] & 0xF0) | 0x0E,
                _ => poison[sp.start] = 0x05,
            }
            let mut c = mk_case(prop, &fbase, unit);
            c.bytes = svb.clone();
            c.valid_len = Some(slen);
            c.expect = Some(expect.clone());
            c.sched = Schedule::whole();
            c.prior = Some(poison.clone());
            c.fault_kind = "skip_field_after_refused".into();
            out.push(c);
            if proto == Proto::Binary {
                let mut c = mk_case(prop, &fbase, unit);
                c.level = Level::SkipUnchecked;
                c.bytes = se.out.clone();
                c.valid_len = Some(slen);
                c.expect = Some(expect.clone());
                c.run_stream = false;
                c.prior = Some(poison);
                c.fault_kind = "skip_unchecked_after_refused".into();
                out.push(c);
            }
        }
    } else if flavour < 9 {
        // depth band: nest 1..80
        let n = if tier == Tier::Thorough { 12 } else { 5 };
        for _ in 0..n {
            let d = match r.below(5) {
                0 => r.range(55, 60),
                1 => r.range(70, 80),
                // exactly at the documented limit of 64 levels, and just beyond it
                2 => r.range(62, 67),
                _ => r.range(1, 80),
            } as usize;
            let tv = match r.below(6) {
                0 | 1 => struct_chain(d, r.range(1, 20) as i16),
                2 => container_chain(&mut r, d),
                3 => wide_run(&mut r),
                4 => leaf_chain(&mut r, d),
                _ => rich_chain(&mut r, d.saturating_sub(3)),
            };
            // the depth is taken from the value (rich chains and wide runs choose their own)
            // The documented limit is 64 levels. Values of at most 64 levels (scalars counted as a level)
            // must be skipped; values with more than 64 nested containers must be refused. Whether a
            // scalar below 64 containers is a 65th level is read differently by the skippers (the recursive
            // ones count it, the unchecked reader's bulk paths do not): not judged.
            let d = tv.depth();
            if d > 64 && tv.cdepth() <= 64 {
                continue;
            }
            let e = encode_value(proto, &tv, Style::default());
            let len = e.out.len();
            let mut vb = e.out.clone();
            vb.extend_from_slice(&trailer);
            let base = Base { proto, level: Level::Skip(tv.ttype()), bytes: e.out, spans: vec![], note: format!("nest{}", d), tv: None, conforming: true };
            let refused = d > 64;
            for (i, s) in [Schedule::whole(), Schedule::random(&mut r, vb.len(), ppct)].into_iter().enumerate() {
                let mut c = mk_case(prop, &base, unit);
                c.bytes = vb.clone();
                c.valid_len = Some(len);
                c.expect_refused = Some(refused);
                c.sched = s;
                c.run_mem = i == 0;
                c.fault_kind = if refused { "depth_over".into() } else { "depth_under".into() };
                out.push(c);
            }
            // as an unknown field of an enclosing struct (the reader has state of its own by then: the skip
            // budget belongs to the skipped value alone)
            {
                let st = TV::Struct(vec![(5, tv.clone()), (6, TV::I64(77))]);
                let se = encode_value(proto, &st, Style::default());
                let xlen = encoded_len_as_field_value(proto, &tv, Style::default());
                let slen = se.out.len();
                let mut svb = se.out.clone();
                svb.extend_from_slice(&trailer);
                for (i, sch) in [Schedule::whole(), Schedule::random(&mut r, svb.len(), ppct)].into_iter().enumerate() {
                    let mut c = mk_case(prop, &base, unit);
                    c.level = Level::SkipField;
                    c.bytes = svb.clone();
                    c.valid_len = Some(slen);
                    c.expect = Some(format!("{:?}", TV::Struct(vec![(5, TV::I64(xlen as i64)), (6, TV::I64(77))])));
                    c.expect_refused = Some(refused);
                    c.sched = sch;
                    c.run_mem = i == 0;
                    c.fault_kind = if refused { "depth_over".into() } else { "depth_under".into() };
                    out.push(c);
                }
            }
            // through the unchecked reader's iterative skipper as an unknown field
            if proto == Proto::Binary {
                let st = TV::Struct(vec![(5, tv.clone()), (6, TV::I64(77))]);
                let se = encode_value(proto, &st, Style::default());
                let xlen = encoded_len(proto, &tv, Style::default());
                let mut c = mk_case(prop, &base, unit);
                c.level = Level::SkipUnchecked;
                c.valid_len = Some(se.out.len());
                c.bytes = se.out;
                c.expect = Some(format!("{:?}", TV::Struct(vec![(5, TV::I64(xlen as i64)), (6, TV::I64(77))])));
                c.expect_refused = Some(refused);
                c.run_stream = false;
                c.fault_kind = if refused { "depth_over".into() } else { "depth_under".into() };
                out.push(c);
            }
        }
    } else {
        // nesting bomb
        let d = *r.pick(&[200usize, 1000, 10_000, 100_000]);
        let bytes = chain_bytes(proto, d);
        let len = bytes.len();
        let base = Base { proto, level: Level::Skip(T_STRUCT), bytes, spans: vec![], note: format!("chain{}", d), tv: None, conforming: true };
        let mut vb = base.bytes.clone();
        vb.extend_from_slice(&trailer);
        let mut c = mk_case(prop, &base, unit);
        c.bytes = vb;
        c.valid_len = Some(len);
        c.expect_refused = Some(true);
        c.sched = Schedule::whole();
        c.fault_kind = "depth_bomb".into();
        out.push(c);
    }
    for (i, c) in out.iter_mut().enumerate() {
        c.idx = i as u64;
    }
    out
}

/// Length of `v` as it appears as a field value (compact bool fields carry
/// their value in the header and occupy no bytes of their own).
fn encoded_len_as_field_value(proto: Proto, v: &TV, long_form: Style) -> usize {
    if proto == Proto::Compact && matches!(v, TV::Bool(_)) {
        0
    } else {
        encoded_len(proto, v, long_form)
    }
}

// ------------------------------------------------------------ fault catalogue

pub struct Faulted {
    pub bytes: Vec<u8>,
    pub desc: String,
    pub kind: &'static str,
    pub strict_prefix: bool,
}

const TYPE_CODES: [u8; 20] = [0, 1, 2, 3, 4, 5, 6, 7, 8, 9, 10, 11, 12, 13, 14, 15, 16, 17, 0x7f, 0xff];

pub fn enumerate_faults(r: &mut Rng, b: &Base, tier: Tier, want_all_truncations: bool) -> Vec<Faulted> {
    let mut v = vec![];
    let len = b.bytes.len();
    let is_pb = matches!(b.level, Level::Pb(_));
    let structish = b.conforming && (matches!(b.level, Level::Gen(_)) || matches!(b.level, Level::Prim(T_STRUCT)));
    // truncation at every offset (strict prefixes)
    if want_all_truncations || len <= 64 {
        for k in 0..len {
            v.push(Faulted { bytes: b.bytes[..k].to_vec(), desc: format!("truncate@{}", k), kind: "truncate", strict_prefix: structish });
        }
    } else {
        for k in fault_positions(r, b, 48) {
            v.push(Faulted { bytes: b.bytes[..k].to_vec(), desc: format!("truncate@{}", k), kind: "truncate", strict_prefix: structish });
        }
    }
    // bit flips: exhaustive for short messages
    let flip_exhaustive = if tier == Tier::Thorough { 128 } else { 40 };
    if len <= flip_exhaustive {
        for pos in 0..len {
            for bit in 0..8 {
                let mut x = b.bytes.clone();
                x[pos] ^= 1 << bit;
                v.push(Faulted { bytes: x, desc: format!("flip@{}.{}", pos, bit), kind: "bit_flip", strict_prefix: false });
            }
        }
    } else {
        let n = if tier == Tier::Thorough { 512 } else { 96 };
        for _ in 0..n {
            let pos = r.below(len as u64) as usize;
            let bit = r.below(8);
            let mut x = b.bytes.clone();
            x[pos] ^= 1 << bit;
            v.push(Faulted { bytes: x, desc: format!("flip@{}.{}", pos, bit), kind: "bit_flip", strict_prefix: false });
        }
    }
    // every length / count span overwritten with the boundary set
    let max_spans = if tier == Tier::Thorough { 400 } else { 60 };
    let mut span_idx: Vec<usize> = (0..b.spans.len()).collect();
    if span_idx.len() > max_spans {
        // sample without replacement
        for i in 0..max_spans {
            let j = i + r.below((span_idx.len() - i) as u64) as usize;
            span_idx.swap(i, j);
        }
        span_idx.truncate(max_spans);
        span_idx.sort_unstable();
    }
    for &i in &span_idx {
        let sp = b.spans[i];
        let rem = (len - sp.end) as i64;
        match sp.kind {
            SpanKind::Len | SpanKind::Count | SpanKind::CollHdr => {
                let mut vals: Vec<i64> = vec![-1, 0, 1, rem - 1, rem, rem + 1, 1 << 16, 1 << 24, i32::MAX as i64, u32::MAX as i64, i32::MIN as i64, (rem / 2).max(2)];
                // values just inside the ends of the range and around powers of two (size arithmetic: n * width, n + k)
                const NEAR: [i64; 16] = [
                    i32::MAX as i64 - 1, i32::MAX as i64 - 7, i32::MAX as i64 - 15, (1 << 27) - 1, 1 << 27, (1 << 27) + 1, 1 << 28, (1 << 28) + 1, 1 << 29, 1 << 30, (1u32 << 31) as i64 + 1,
                    255, 256, 4096, 65535, 65536,
                ];
                if tier == Tier::Thorough {
                    vals.extend_from_slice(&NEAR);
                } else {
                    vals.push(*r.pick(&NEAR));
                    vals.push(*r.pick(&NEAR));
                }
                for val in vals {
                    let kind = if sp.kind == SpanKind::Len { "len_overwrite" } else { "count_overwrite" };
                    v.push(Faulted {
                        bytes: if is_pb { pb_overwrite_len(&b.bytes, &sp, val) } else { overwrite_span(b.proto, &b.bytes, &sp, val) },
                        desc: format!("overwrite {:?}@{}..{}={}", sp.kind, sp.start, sp.end, val),
                        kind,
                        strict_prefix: false,
                    });
                }
            }
            SpanKind::Type | SpanKind::FieldHdr => {
                if is_pb {
                    // the whole key replaced: field number 0, the largest field number, keys beyond 32 bits
                    for (kv, what) in [(0u64, "tag0"), (7, "tag0wt7"), (((1u64 << 29) - 1) << 3 | 2, "tagmax"), (u32::MAX as u64, "u32max"), (1u64 << 32, "over32"), (u64::MAX, "u64max")] {
                        let mut x = Vec::with_capacity(len + 10);
                        x.extend_from_slice(&b.bytes[..sp.start]);
                        put_uvarint(&mut x, kv);
                        x.extend_from_slice(&b.bytes[sp.end..]);
                        v.push(Faulted { bytes: x, desc: format!("key@{}={}", sp.start, what), kind: "key_overwrite", strict_prefix: false });
                    }
                }
                let codes: Vec<u8> = if is_pb {
                    (0u8..8).collect()
                } else if tier == Tier::Thorough {
                    TYPE_CODES.to_vec()
                } else {
                    (0..4).map(|_| *r.pick(&TYPE_CODES)).collect()
                };
                for code in codes {
                    let mut x = b.bytes.clone();
                    // keep the other nibble in compact headers
                    if is_pb {
                        // protobuf key: wire type in the low three bits of the first byte
                        x[sp.start] = (x[sp.start] & !7) | (code & 7);
                    } else if b.proto == Proto::Compact {
                        x[sp.start] = (x[sp.start] & 0xF0) | (code & 0x0F);
                    } else {
                        x[sp.start] = code;
                    }
                    if x == b.bytes {
                        continue;
                    }
                    v.push(Faulted { bytes: x, desc: format!("type@{}={}", sp.start, code), kind: "type_overwrite", strict_prefix: false });
                }
            }
            SpanKind::FieldId => {
                // boundary ids plus the ids of other fields of this message (a repeated id, a swapped id)
                let mut vals: Vec<i64> = vec![0, 1, -1, 32767, -32768];
                if !is_pb {
                    // just inside the ends of the id range (arithmetic on an id from the wire: id + 15, id - last)
                    const NEAR: [i64; 8] = [32766, 32760, 32753, 32752, 32751, -32767, -32760, -32753];
                    if tier == Tier::Thorough {
                        vals.extend_from_slice(&NEAR);
                    } else {
                        vals.push(*r.pick(&NEAR));
                        vals.push(*r.pick(&NEAR));
                    }
                    let others: Vec<&Span> = b.spans.iter().filter(|o| o.kind == SpanKind::FieldId && o.start != sp.start).collect();
                    for _ in 0..3.min(others.len()) {
                        let o = *r.pick(&others);
                        if let Some(id) = read_field_id(b.proto, &b.bytes, o) {
                            vals.push(id as i64);
                        }
                    }
                }
                for val in vals {
                    v.push(Faulted {
                        bytes: overwrite_span(b.proto, &b.bytes, &sp, val),
                        desc: format!("field_id@{}={}", sp.start, val),
                        kind: "field_id_overwrite",
                        strict_prefix: false,
                    });
                }
            }
            SpanKind::Payload => {
                // content faults inside a long string / binary payload: a UTF-8 continuation byte, a lead
                // byte and 0xFF at the power-of-two offsets (and their neighbours) where a decoder may cut,
                // cap or chunk what it was sent
                let plen = sp.end - sp.start;
                if plen > 48 {
                    let mut offs: Vec<usize> = vec![];
                    let mut p = 64usize;
                    while p <= plen && p <= 16384 {
                        offs.extend_from_slice(&[p - 1, p]);
                        p *= 2;
                    }
                    offs.push(plen - 1);
                    for o in offs {
                        if o >= plen {
                            continue;
                        }
                        for val in [0x80u8, 0xE4] {
                            if b.bytes[sp.start + o] == val {
                                continue;
                            }
                            let mut x = b.bytes.clone();
                            x[sp.start + o] = val;
                            v.push(Faulted { bytes: x, desc: format!("payload@{}+{}={:#x}", sp.start, o, val), kind: "payload_content", strict_prefix: false });
                        }
                    }
                }
            }
            SpanKind::Stop => {}
        }
        if sp.kind == SpanKind::FieldHdr && b.proto == Proto::Compact && !is_pb {
            // the delta nibble of a short-form field header: other ids, a repeated id, the long form (0)
            for d in [0u8, 1, 2, 7, 15] {
                let mut x = b.bytes.clone();
                x[sp.start] = (x[sp.start] & 0x0F) | (d << 4);
                if x != b.bytes {
                    v.push(Faulted { bytes: x, desc: format!("delta@{}={}", sp.start, d), kind: "field_id_overwrite", strict_prefix: false });
                }
            }
        }
    }
    // span drop / duplication
    if !b.spans.is_empty() {
        let n = if tier == Tier::Thorough { 24 } else { 6 };
        for _ in 0..n {
            let sp = *r.pick(&b.spans);
            if sp.end == sp.start {
                continue;
            }
            let mut x = Vec::with_capacity(len);
            x.extend_from_slice(&b.bytes[..sp.start]);
            x.extend_from_slice(&b.bytes[sp.end..]);
            v.push(Faulted { bytes: x, desc: format!("drop {}..{}", sp.start, sp.end), kind: "span_drop", strict_prefix: false });
            let mut x = Vec::with_capacity(len + sp.end - sp.start);
            x.extend_from_slice(&b.bytes[..sp.end]);
            x.extend_from_slice(&b.bytes[sp.start..]);
            v.push(Faulted { bytes: x, desc: format!("dup {}..{}", sp.start, sp.end), kind: "span_dup", strict_prefix: false });
        }
    }
    v
}

/// The field id stored in a FieldId span (fixed i16 or zigzag varint).
fn read_field_id(proto: Proto, bytes: &[u8], sp: &Span) -> Option<i16> {
    let b = bytes.get(sp.start..sp.end)?;
    match proto {
        Proto::Binary => Some(i16::from_be_bytes([*b.first()?, *b.get(1)?])),
        Proto::BinaryLE => Some(i16::from_le_bytes([*b.first()?, *b.get(1)?])),
        Proto::Compact => {
            let mut v: u32 = 0;
            for (i, x) in b.iter().enumerate() {
                v |= ((*x & 0x7f) as u32) << (7 * i);
            }
            Some(((v >> 1) as i32 ^ -((v & 1) as i32)) as i16)
        }
    }
}

/// Replace a protobuf length prefix (varint) by `val` (as u64: negatives become ten-byte varints).
fn pb_overwrite_len(bytes: &[u8], sp: &Span, val: i64) -> Vec<u8> {
    let mut out = Vec::with_capacity(bytes.len() + 10);
    out.extend_from_slice(&bytes[..sp.start]);
    put_uvarint(&mut out, val as u64);
    out.extend_from_slice(&bytes[sp.end..]);
    out
}

fn random_bytes_cases(r: &mut Rng) -> Vec<Faulted> {
    let mut v = vec![];
    for _ in 0..8 {
        let n = *r.pick(&[0usize, 1, 2, 3, 5, 9, 17, 40, 200]);
        let mut x = r.bytes(n);
        // bias towards bytes that mean something: type codes and small numbers
        if r.chance(1, 2) {
            for b in x.iter_mut() {
                if r.chance(1, 2) {
                    *b = *r.pick(&[0u8, 1, 2, 3, 4, 6, 8, 10, 11, 12, 13, 14, 15, 16, 0x1c, 0x19, 0x82, 0x80, 0xff]);
                }
            }
        }
        v.push(Faulted { bytes: x, desc: format!("random[{}]", n), kind: "random_bytes", strict_prefix: false });
    }
    v
}

// ------------------------------------------------------------------- C09

pub fn unit_c09(w: &World, seed: u64, unit: u64, tier: Tier) -> Vec<Case> {
    let prop = "C09";
    let mut r = Rng::derive(seed, &[prop_tag(prop), unit]);
    let mut out: Vec<Case> = vec![];
    let ppct = pending_pct(&mut r);
    let flavour = r.below(20);
    if flavour == 0 {
        // nesting bombs against generated recursive types and the skippers
        let proto = pick_proto(&mut r);
        let d = *r.pick(&[10usize, 64, 65, 200, 1000, 5000, 20_000, 200_000]);
        // Tree.f2 is `optional Tree`: field 2 of type struct all the way down
        let mut bytes = Vec::new();
        for _ in 1..d {
            match proto {
                Proto::Binary => bytes.extend_from_slice(&[T_STRUCT, 0, 2]),
                Proto::BinaryLE => bytes.extend_from_slice(&[T_STRUCT, 2, 0]),
                Proto::Compact => bytes.push(0x2C),
            }
        }
        bytes.extend(std::iter::repeat(0u8).take(d));
        for lv in [Level::Gen("Tree".into()), Level::Gen("keep::Tree".into()), Level::Gen("Leaf".into()), Level::Skip(T_STRUCT)] {
            let base = Base { proto, level: lv, bytes: bytes.clone(), spans: vec![], note: format!("bomb{}", d), tv: None, conforming: true };
            for stream in [false, true] {
                let mut c = mk_case(prop, &base, unit);
                c.bytes = bytes.clone();
                c.run_mem = !stream;
                c.run_stream = stream;
                c.sched = if stream { Schedule::random(&mut r, bytes.len(), ppct) } else { Schedule::whole() };
                c.fault = format!("nest{}", d);
                c.fault_kind = "nesting_bomb".into();
                out.push(c);
            }
        }
        // a value of every kind of leaf just beyond the skip limit, as an unknown field of a generated
        // type and on its own: the refusal itself (its message names the type it stopped at) must be an error
        for _ in 0..4 {
            let dd = r.range(65, 67) as usize;
            let tv = leaf_chain(&mut r, dd);
            let st = TV::Struct(vec![(9999, tv.clone())]);
            let e = encode_value(proto, &st, Style::default());
            for lv in [Level::Gen("Leaf".into()), Level::Gen("rt::ApplicationException".into()), Level::Skip(T_STRUCT)] {
                let base = Base { proto, level: lv, bytes: e.out.clone(), spans: vec![], note: format!("leafchain{}", dd), tv: None, conforming: false };
                for stream in [false, true] {
                    let mut c = mk_case(prop, &base, unit);
                    c.bytes = e.out.clone();
                    c.run_mem = !stream;
                    c.run_stream = stream;
                    c.sched = if stream { Schedule::random(&mut r, e.out.len(), ppct) } else { Schedule::whole() };
                    c.fault = format!("leafchain{}", dd);
                    c.fault_kind = "nesting_over_limit".into();
                    out.push(c);
                }
            }
        }
        // container-of-container bombs (headers only): lists, sets and map values all the way down, in
        // every protocol, at the drawn depth and at 60 000 levels (a recursive skipper that forgets to
        // count a level needs that many to run out of a 2 MiB stack)
        for bproto in [Proto::Binary, Proto::BinaryLE, Proto::Compact] {
            for (kind, kname) in [(T_LIST, "list"), (T_SET, "set"), (T_MAP, "map"), (0u8, "mapkey")] {
                for bd in [d, 60_000usize] {
                    let mut cb = Vec::new();
                    for _ in 0..bd {
                        match (bproto, kind) {
                            // nesting through the key position: map<map<...>, i8> (the values follow the whole key)
                            (Proto::Binary, 0) => cb.extend_from_slice(&[T_MAP, T_I8, 0, 0, 0, 1]),
                            (Proto::BinaryLE, 0) => cb.extend_from_slice(&[T_MAP, T_I8, 1, 0, 0, 0]),
                            (Proto::Compact, 0) => cb.extend_from_slice(&[0x01, 0xB3]),
                            (Proto::Binary, T_MAP) => cb.extend_from_slice(&[T_I8, T_MAP, 0, 0, 0, 1, 0]),
                            (Proto::BinaryLE, T_MAP) => cb.extend_from_slice(&[T_I8, T_MAP, 1, 0, 0, 0, 0]),
                            (Proto::Compact, T_MAP) => cb.extend_from_slice(&[0x01, 0x3B, 0x00]),
                            (Proto::Binary, k) => cb.extend_from_slice(&[k, 0, 0, 0, 1]),
                            (Proto::BinaryLE, k) => cb.extend_from_slice(&[k, 1, 0, 0, 0]),
                            (Proto::Compact, T_LIST) => cb.push(0x19),
                            (Proto::Compact, _) => cb.push(0x1A),
                        }
                    }
                    let base = Base { proto: bproto, level: Level::Skip(if kind == 0 { T_MAP } else { kind }), bytes: cb.clone(), spans: vec![], note: format!("{}bomb{}", kname, bd), tv: None, conforming: true };
                    for stream in [false, true] {
                        let mut c = mk_case(prop, &base, unit);
                        c.bytes = cb.clone();
                        c.run_mem = !stream;
                        c.run_stream = stream;
                        c.fault = format!("{}nest{}", kname, bd);
                        c.fault_kind = "nesting_bomb".into();
                        out.push(c);
                    }
                }
            }
        }
    } else {
        let b = gen_base(w, &mut r, Mix { gen: 60, prim: 30, envelope: 10, huge: false }, None);
        let mut faults = enumerate_faults(&mut r, &b, tier, true);
        faults.extend(random_bytes_cases(&mut r));
        // the unfaulted message itself, too
        faults.push(Faulted { bytes: b.bytes.clone(), desc: "none".into(), kind: "none", strict_prefix: false });
        for f in faults {
            let mut c = mk_case(prop, &b, unit);
            c.bytes = f.bytes;
            c.fault = f.desc;
            c.fault_kind = f.kind.into();
            c.strict_prefix = f.strict_prefix;
            // in-memory leg
            let mut cm = c.clone();
            cm.run_stream = false;
            out.push(cm);
            // stream leg under a seeded schedule, sometimes with an I/O error
            let mut cs = c;
            cs.run_mem = false;
            let l = cs.bytes.len();
            cs.sched = match r.below(4) {
                0 => Schedule::whole(),
                1 => Schedule::bytewise(),
                _ => Schedule::random(&mut r, l.max(1), ppct),
            };
            if r.chance(1, 5) && l > 0 {
                cs.sched.io_error = Some((r.below(l as u64 + 1) as usize, *r.pick(&IoKind::ALL)));
                // with an injected error an Ok outcome is legitimate only if the error lies beyond what is read
                cs.strict_prefix = false;
            }
            out.push(cs);
        }
    }
    for (i, c) in out.iter_mut().enumerate() {
        c.idx = i as u64;
    }
    out
}

// ------------------------------------------------------------------- C19

pub fn unit_c19(w: &World, seed: u64, unit: u64, tier: Tier) -> Vec<Case> {
    let prop = "C19";
    let mut r = Rng::derive(seed, &[prop_tag(prop), unit]);
    let mut out: Vec<Case> = vec![];
    let ppct = pending_pct(&mut r);
    if r.chance(1, 4) {
        // protobuf: generated messages, contiguous and fragmented input
        use crate::pwire::*;
        let name = *r.pick(&GEN_PICK);
        let mut e = PEnc::new();
        let knobs = PKnobs::swarm(&mut r);
        {
            let mut g = PGen { r: &mut r, k: knobs, corpus: &w.pcorpus, budget: 300 };
            g.message(&mut e, name, 1);
        }
        let lvname = format!("pbgen:{}", name);
        let base = Base { proto: Proto::Binary, level: Level::Pb(lvname.clone()), bytes: e.out.clone(), spans: e.spans, note: format!("{}[{}]", name, e.out.len()), tv: None, conforming: false };
        for f in enumerate_faults(&mut r, &base, tier, true) {
            for frag in [false, true] {
                let mut c = mk_case(prop, &base, unit);
                c.bytes = f.bytes.clone();
                c.fault = f.desc.clone();
                c.fault_kind = f.kind.into();
                c.run_mem = !frag;
                c.run_stream = frag;
                c.sched = if frag { chunk_plan(&mut r, c.bytes.len()) } else { Schedule::whole() };
                out.push(c);
            }
        }
        for (i, c) in out.iter_mut().enumerate() {
            c.idx = i as u64;
        }
        return out;
    }
    let proto = *r.pick(&[Proto::Binary, Proto::Compact, Proto::Binary, Proto::Compact, Proto::BinaryLE]);
    let b = gen_base(w, &mut r, Mix { gen: 90, prim: 10, envelope: 0, huge: false }, Some(proto));
    let faults = enumerate_faults(&mut r, &b, tier, true);
    for f in faults {
        let mut c = mk_case(prop, &b, unit);
        c.bytes = f.bytes;
        c.fault = f.desc;
        c.fault_kind = f.kind.into();
        let mut cm = c.clone();
        cm.run_stream = false;
        out.push(cm);
        let mut cs = c;
        cs.run_mem = false;
        let l = cs.bytes.len();
        cs.sched = match r.below(3) {
            0 => Schedule::whole(),
            _ => Schedule::random(&mut r, l.max(1), ppct),
        };
        if r.chance(1, 6) && l > 0 {
            cs.sched.io_error = Some((r.below(l as u64 + 1) as usize, *r.pick(&IoKind::ALL)));
        }
        out.push(cs);
    }
    for (i, c) in out.iter_mut().enumerate() {
        c.idx = i as u64;
    }
    out
}

// ------------------------------------------------------------------- C10

fn chunk_plan(r: &mut Rng, len: usize) -> Schedule {
    // schedule events are reused as the chunk plan of SimBuf
    match r.below(5) {
        0 => Schedule { evs: vec![], tail: 1, io_error: None },
        1 => Schedule { evs: vec![], tail: 2, io_error: None },
        2 => Schedule { evs: vec![], tail: *r.pick(&[3u32, 5, 7, 9, 11]), io_error: None },
        _ => {
            let mut evs = vec![];
            let mut covered = 0usize;
            while covered < len && evs.len() < 256 {
                let n = *r.pick(&[1u64, 1, 1, 2, 3, 4, 5, 8, 9, 10, 11, 17, 64]) as usize;
                evs.push(crate::stream::Ev::Deliver(n as u32));
                covered += n;
            }
            Schedule { evs, tail: 0, io_error: None }
        }
    }
}

fn pb_codec_value(r: &mut Rng, w: &World, codec: &str) -> (Vec<u8>, Vec<Span>, u8) {
    use crate::pwire::*;
    let mut e = PEnc::new();
    let knobs = PKnobs::swarm(r);
    e.pad = knobs.pad;
    let wt: u8;
    match codec {
        "bool" | "int32" | "int64" | "uint32" | "uint64" | "sint32" | "sint64" | "enum_i32" | "varint" | "key" | "length_delimiter" => {
            wt = 0;
            let v = match r.below(4) {
                0 => r.next(),
                1 => r.below(300),
                2 => u64::MAX,
                _ => r.next() >> r.below(64),
            };
            put_uvarint(&mut e.out, v);
            if r.chance(1, 10) {
                // over-long varint
                e.out = vec![0xff; 11];
            }
        }
        "float" | "fixed32" | "sfixed32" => {
            wt = 5;
            e.out.extend_from_slice(&(r.next() as u32).to_le_bytes());
        }
        "double" | "fixed64" | "sfixed64" => {
            wt = 1;
            e.out.extend_from_slice(&r.next().to_le_bytes());
        }
        "string" | "faststr" | "bytes" | "bytes_vec" => {
            wt = 2;
            let n = *r.pick(&[0usize, 1, 5, 127, 128, 1000]);
            let body: Vec<u8> = if codec.starts_with("bytes") || r.chance(1, 8) {
                r.bytes(n)
            } else if r.chance(1, 3) {
                crate::tval::multibyte_text(r, n)
            } else {
                (0..n).map(|_| b'a' + r.below(26) as u8).collect()
            };
            e.len_prefixed(&body, true);
        }
        "message" | "hash_map_str_node" | "btree_map_str_msg" | "hash_map_i32_str" => {
            wt = 2;
            let mut sub = PEnc::new();
            let mut g = PGen { r, k: knobs, corpus: &w.pcorpus, budget: 300 };
            match codec {
                "message" => {
                    let which = if g.r.chance(1, 2) { "Envelope" } else { "Node" };
                    g.message(&mut sub, which, 1)
                }
                "hash_map_i32_str" => {
                    g.scalar_pub(&mut sub, 1, &crate::pcorpus_def::PK::Int32);
                    g.scalar_pub(&mut sub, 2, &crate::pcorpus_def::PK::String);
                }
                "btree_map_str_msg" => {
                    g.scalar_pub(&mut sub, 1, &crate::pcorpus_def::PK::String);
                    sub.key(2, 2);
                    let mut m = PEnc::new();
                    g.message(&mut m, "Small", 1);
                    sub.nested(m);
                }
                _ => {
                    g.scalar_pub(&mut sub, 1, &crate::pcorpus_def::PK::String);
                    sub.key(2, 2);
                    let mut m = PEnc::new();
                    g.message(&mut m, "Node", 1);
                    sub.nested(m);
                }
            }
            e.nested(sub);
        }
        "group" | "skip" => {
            wt = 3;
            // body of a group with tag 3: some fields then the end key
            let mut g = PGen { r, k: knobs, corpus: &w.pcorpus, budget: 300 };
            let n = g.r.below(4);
            for _ in 0..n {
                match g.r.below(4) {
                    0 => g.scalar_pub(&mut e, 1, &crate::pcorpus_def::PK::Int32),
                    1 => g.scalar_pub(&mut e, 2, &crate::pcorpus_def::PK::String),
                    2 => {
                        e.key(3, 3);
                        g.scalar_pub(&mut e, 1, &crate::pcorpus_def::PK::Int32);
                        e.key(3, 4);
                    }
                    _ => g.unknown_field(&mut e, 1),
                }
            }
            e.key(3, 4);
        }
        _ => {
            wt = 0;
        }
    }
    (e.out, e.spans, wt)
}

pub fn unit_c10(w: &World, seed: u64, unit: u64, tier: Tier) -> Vec<Case> {
    use crate::pwire::*;
    let prop = "C10";
    let mut r = Rng::derive(seed, &[prop_tag(prop), unit]);
    let mut out: Vec<Case> = vec![];
    let flavour = r.below(20);
    let mk = |level: String, note: String| -> Case {
        Case {
            prop: prop.to_string(),
            proto: Proto::Binary,
            level: Level::Pb(level),
            bytes: vec![],
            valid_len: None,
            expect_refused: None,
            strict_prefix: false,
            expect: None,
            sched: Schedule::whole(),
            run_mem: true,
            run_stream: false,
            fault: String::new(),
            fault_kind: "none".into(),
            note,
            unit,
            idx: 0,
        prior: None,
        }
    };
    // every input goes through the contiguous leg and the fragmented leg
    let mut push_both = |out: &mut Vec<Case>, r: &mut Rng, mut c: Case| {
        c.run_mem = true;
        c.run_stream = false;
        c.sched = Schedule::whole();
        out.push(c.clone());
        c.run_mem = false;
        c.run_stream = true;
        c.sched = chunk_plan(r, c.bytes.len());
        out.push(c);
    };
    if flavour < 2 {
        // nesting: messages, repeated messages, map entries, groups (known and unknown)
        let depths: Vec<usize> = if tier == Tier::Thorough { vec![1, 50, 90, 99, 100, 101, 110, 150, 300, 1000, 20_000] } else { vec![50, 96, 98, 99, 100, 101, 110, 300, 5_000] };
        for d in depths {
            let d = if (98..=101).contains(&d) { d } else if d <= 300 { (d + r.below(7) as usize).max(1) } else { d };
            // the documented recursion limit is 100: every nesting construct of 101 or more levels is refused
            // (measured on the unchanged tree: all variants refuse from 101, some accept 100)
            let refused = if d >= 101 { Some(true) } else { None };
            let leaf = node_leaf_body();
            let variants: Vec<(String, Vec<u8>)> = vec![
                // the innermost message uses every non-recursive field (packed runs at the deepest legal level)
                ("pbgen:Node".into(), nest_messages_leaf(1, d, &leaf)),
                ("pbgen:Node".into(), nest_messages_leaf(2, d, &leaf)),
                ("pbgenld:Node".into(), {
                    let b = nest_messages_leaf(1, d, &leaf);
                    let mut o = vec![];
                    put_uvarint(&mut o, b.len() as u64);
                    o.extend_from_slice(&b);
                    o
                }),
                ("pbgen:Node".into(), nest_messages(1, d)),
                ("pbgen:Node".into(), nest_messages(2, d)),
                ("pbgenld:Node".into(), {
                    let b = nest_messages(1, d);
                    let mut o = vec![];
                    put_uvarint(&mut o, b.len() as u64);
                    o.extend_from_slice(&b);
                    o
                }),
                ("pbgen:Node".into(), nest_maps(d.min(3000))),
                ("pbgen:Node".into(), nest_groups(100, d)),
                ("pbgen:Small".into(), nest_groups(7, d)),
                ("pbgen:GroupMsg".into(), nest_groups(3, d)),
                ("pbcodec:skip:3:s".into(), {
                    let mut b = nest_groups(3, d);
                    // the outer start key is the one the caller has consumed
                    if !b.is_empty() {
                        b.remove(0);
                    }
                    b
                }),
                ("pbcodec:message:2:s".into(), {
                    let b = nest_messages(4, d); // Envelope.f4 is Node; then Node.f1...
                    let _ = b;
                    let inner = nest_messages(1, d);
                    let mut body = vec![];
                    put_uvarint(&mut body, (4 << 3) | 2);
                    put_uvarint(&mut body, inner.len() as u64);
                    body.extend_from_slice(&inner);
                    let mut o = vec![];
                    put_uvarint(&mut o, body.len() as u64);
                    o.extend_from_slice(&body);
                    o
                }),
            ];
            for (lv, bytes) in variants {
                let mut c = mk(lv, format!("nest{}", d));
                c.bytes = bytes;
                c.expect_refused = refused;
                c.fault = format!("nest{}", d);
                c.fault_kind = if refused.is_some() { "nesting_over_limit".into() } else { "nesting_under_limit".into() };
                push_both(&mut out, &mut r, c);
            }
        }
    } else if flavour < 6 {
        // runtime field codecs
        let codec = *r.pick(&CODECS);
        let (bytes, spans, wt) = pb_codec_value(&mut r, w, codec);
        let rep = if r.chance(1, 2) { "r" } else { "s" };
        let base = Base { proto: Proto::Binary, level: Level::Pb(format!("pbcodec:{}:{}:{}", codec, wt, rep)), bytes: bytes.clone(), spans, note: format!("{}[{}]", codec, bytes.len()), tv: None, conforming: false };
        let mut faults = enumerate_faults(&mut r, &base, tier, true);
        faults.push(Faulted { bytes: bytes.clone(), desc: "none".into(), kind: "none", strict_prefix: false });
        // every wire type against this codec
        for other in 0u8..6 {
            if other != wt {
                faults.push(Faulted { bytes: bytes.clone(), desc: format!("wire_type={}", other), kind: "wire_type_mismatch", strict_prefix: false });
            }
        }
        for f in faults {
            let lvname = if f.kind == "wire_type_mismatch" {
                let o: u8 = f.desc.trim_start_matches("wire_type=").parse().unwrap_or(0);
                format!("pbcodec:{}:{}:{}", codec, o, rep)
            } else {
                format!("pbcodec:{}:{}:{}", codec, wt, rep)
            };
            let mut c = mk(lvname, base.note.clone());
            // a length prefix beyond the remaining input must be rejected before anything is copied
            if f.kind == "len_overwrite" && matches!(codec, "string" | "faststr" | "bytes" | "bytes_vec") && wt == 2 {
                if let Some(v) = f.desc.rsplit('=').next().and_then(|x| x.parse::<i64>().ok()) {
                    let rem = bytes.len() as i64 - 1; // the prefix of these values is one or two bytes; be conservative
                    if (v as u32 as i64) > rem + 1 {
                        c.expect = Some("underflow".into());
                    }
                }
            }
            c.bytes = f.bytes;
            c.fault = f.desc;
            c.fault_kind = f.kind.into();
            push_both(&mut out, &mut r, c);
        }
    } else if flavour < 8 {
        // well-known wrapper impls and random bytes against every entry point
        let wname = *r.pick(&WRAPPERS);
        for _ in 0..24 {
            let mut e = PEnc::new();
            let knobs = PKnobs::swarm(&mut r);
            let mut g = PGen { r: &mut r, k: knobs, corpus: &w.pcorpus, budget: 300 };
            let kind = match wname {
                "bool" => crate::pcorpus_def::PK::Bool,
                "u32" => crate::pcorpus_def::PK::Uint32,
                "u64" => crate::pcorpus_def::PK::Uint64,
                "i32" => crate::pcorpus_def::PK::Int32,
                "i64" => crate::pcorpus_def::PK::Int64,
                "f32" => crate::pcorpus_def::PK::Float,
                "f64" => crate::pcorpus_def::PK::Double,
                "String" => crate::pcorpus_def::PK::String,
                _ => crate::pcorpus_def::PK::Bytes,
            };
            let n = g.r.below(3);
            for _ in 0..n {
                g.scalar_pub(&mut e, 1, &kind);
            }
            if g.r.chance(1, 2) {
                g.unknown_field(&mut e, 1);
            }
            let base = Base { proto: Proto::Binary, level: Level::Pb(format!("pbwrap:{}", wname)), bytes: e.out.clone(), spans: e.spans, note: format!("wrap {}", wname), tv: None, conforming: false };
            let mut faults = enumerate_faults(&mut r, &base, Tier::Quick, true);
            faults.extend(random_bytes_cases(&mut r));
            faults.push(Faulted { bytes: e.out.clone(), desc: "none".into(), kind: "none", strict_prefix: false });
            for f in faults {
                let mut c = mk(format!("pbwrap:{}", wname), base.note.clone());
                c.bytes = f.bytes;
                c.fault = f.desc;
                c.fault_kind = f.kind.into();
                push_both(&mut out, &mut r, c);
            }
        }
    } else {
        // generated messages
        let name = *r.pick(&GEN_PICK);
        let mut e = PEnc::new();
        let knobs = PKnobs::swarm(&mut r);
        {
            let mut g = PGen { r: &mut r, k: knobs, corpus: &w.pcorpus, budget: 300 };
            g.message(&mut e, name, 1);
        }
        let ld = r.chance(1, 4);
        let (bytes, spans, lvname) = if ld {
            let mut o = PEnc::new();
            o.nested(e);
            (o.out, o.spans, format!("pbgenld:{}", name))
        } else {
            (e.out, e.spans, format!("pbgen:{}", name))
        };
        let base = Base { proto: Proto::Binary, level: Level::Pb(lvname.clone()), bytes: bytes.clone(), spans, note: format!("{}[{}]", name, bytes.len()), tv: None, conforming: false };
        let mut faults = enumerate_faults(&mut r, &base, tier, true);
        faults.extend(random_bytes_cases(&mut r));
        faults.push(Faulted { bytes: bytes.clone(), desc: "none".into(), kind: "none", strict_prefix: false });
        for f in faults {
            let mut c = mk(lvname.clone(), base.note.clone());
            c.bytes = f.bytes;
            c.fault = f.desc;
            c.fault_kind = f.kind.into();
            push_both(&mut out, &mut r, c);
        }
    }
    for (i, c) in out.iter_mut().enumerate() {
        c.idx = i as u64;
    }
    out
}

pub fn unit_cases(w: &World, prop: &str, seed: u64, unit: u64, tier: Tier) -> Vec<Case> {
    match prop {
        "C12" => unit_c12(w, seed, unit, tier),
        "C07" => unit_c07(w, seed, unit, tier),
        "C09" => unit_c09(w, seed, unit, tier),
        "C19" => unit_c19(w, seed, unit, tier),
        "C10" => unit_c10(w, seed, unit, tier),
        _ => vec![],
    }
}
