// Units: one unit = one base input (value, protocol, level) drawn from the
// run PRNG plus every case (fault x schedule) derived from it. A unit's case
// list is a pure function of (seed, property, unit index, tier).

use crate::case::{Case, Level};
use crate::legs::GenType;
use crate::refenc::*;
use crate::rng::Rng;
use crate::stream::{IoKind, Schedule};
use crate::tval::*;

#[derive(Clone, Copy, PartialEq, Eq, Debug)]
pub enum Tier {
    Quick,
    Thorough,
}

pub struct World {
    pub schema: Schema,
    pub gens: Vec<GenType>,
}

impl World {
    pub fn new() -> Self {
        World { schema: Schema::new(), gens: crate::legs::gen_types() }
    }
}

pub struct Base {
    pub proto: Proto,
    pub level: Level,
    pub bytes: Vec<u8>,
    pub spans: Vec<Span>,
    pub note: String,
    /// the main value (None for raw-byte bases)
    pub tv: Option<TV>,
    /// the bytes are a valid encoding *of the declared type*: no field was retyped by the
    /// writer-schema variation (undeclared extra fields are fine, they are skipped by wire type)
    pub conforming: bool,
}

pub fn prop_tag(prop: &str) -> u64 {
    crate::rng::hash_str(prop)
}

fn encode_trailer(proto: Proto) -> Vec<u8> {
    encode_value(proto, &crate::eval::trailer_tv(), false).out
}

fn pick_proto(r: &mut Rng) -> Proto {
    *r.pick(&[Proto::Binary, Proto::Binary, Proto::BinaryLE, Proto::Compact, Proto::Compact])
}

#[derive(Clone, Copy)]
pub struct Mix {
    pub gen: u64,
    pub prim: u64,
    pub envelope: u64,
}

/// Draw a base input.
pub fn gen_base(w: &World, r: &mut Rng, mix: Mix, proto: Option<Proto>) -> Base {
    let proto = proto.unwrap_or_else(|| pick_proto(r));
    let knobs = Knobs::swarm(r);
    let long_form = r.chance(1, 8);
    let total = mix.gen + mix.prim + mix.envelope;
    let x = r.below(total);
    if x < mix.gen {
        let g = r.pick(&w.gens);
        let def = w.schema.get(g.schema).expect("schema for gen type").clone();
        let ev = Evolve::swarm(r);
        let mut cx = GenCtx::new(r, knobs);
        let tv = cx.of_struct(&w.schema, &ev, &def, 1);
        let e = encode_value(proto, &tv, long_form);
        let mut b = 60;
        Base { proto, level: Level::Gen(g.name.to_string()), bytes: e.out, spans: e.spans, note: tv.brief(&mut b), tv: Some(tv), conforming: ev.retype_pct == 0 }
    } else if x < mix.gen + mix.prim {
        let mut cx = GenCtx::new(r, knobs);
        let t = cx.any_type();
        let tv = cx.any_of_type(t, 1);
        let e = encode_value(proto, &tv, long_form);
        let mut b = 60;
        Base { proto, level: Level::Prim(t), bytes: e.out, spans: e.spans, note: tv.brief(&mut b), tv: Some(tv), conforming: true }
    } else {
        let name_len = *r.pick(&[0usize, 1, 4, 15, 16, 200]);
        let name: Vec<u8> = (0..name_len).map(|_| b'a' + r.below(26) as u8).collect();
        let mtype = r.range(1, 4) as u8;
        let seq = match r.below(4) {
            0 => 0,
            1 => -1,
            2 => i32::MAX,
            _ => r.next() as i32,
        };
        let mut cx = GenCtx::new(r, knobs);
        let tv = cx.any_of_type(T_STRUCT, 1);
        let mut e = Enc::new(proto);
        e.long_form = long_form;
        e.message_begin(&name, mtype, seq);
        e.value(&tv);
        let mut b = 40;
        Base { proto, level: Level::Envelope, bytes: e.out, spans: e.spans, note: format!("msg[{}] t{} seq{} {}", name_len, mtype, seq, tv.brief(&mut b)), tv: Some(tv), conforming: true }
    }
}

fn mk_case(prop: &str, b: &Base, unit: u64) -> Case {
    Case {
        prop: prop.to_string(),
        proto: b.proto,
        level: b.level.clone(),
        bytes: vec![],
        valid_len: None,
        expect_refused: None,
        strict_prefix: false,
        expect: None,
        sched: Schedule::whole(),
        run_mem: true,
        run_stream: true,
        fault: String::new(),
        fault_kind: "none".into(),
        note: b.note.clone(),
        unit,
        idx: 0,
    }
}

fn pending_pct(r: &mut Rng) -> u64 {
    *r.pick(&[0u64, 10, 50, 90])
}

/// Positions where a truncation / EOF / I/O error is most interesting: around
/// the boundaries of the layout spans, plus uniformly drawn ones.
fn fault_positions(r: &mut Rng, b: &Base, n: usize) -> Vec<usize> {
    let len = b.bytes.len();
    let mut v = vec![];
    if len == 0 {
        return vec![0];
    }
    for _ in 0..n {
        let p = if !b.spans.is_empty() && r.chance(2, 3) {
            let sp = r.pick(&b.spans);
            match r.below(5) {
                0 => sp.start,
                1 => sp.end,
                2 => sp.start + (sp.end - sp.start) / 2,
                3 => sp.end.saturating_sub(1),
                _ => sp.end + 1,
            }
        } else if r.chance(1, 4) {
            len - 1
        } else {
            r.below(len as u64) as usize
        };
        v.push(p.min(len - 1));
    }
    v.sort_unstable();
    v.dedup();
    v
}

// ------------------------------------------------------------------- C12

pub fn unit_c12(w: &World, seed: u64, unit: u64, tier: Tier) -> Vec<Case> {
    let prop = "C12";
    let mut r = Rng::derive(seed, &[prop_tag(prop), unit]);
    let b = gen_base(w, &mut r, Mix { gen: 50, prim: 40, envelope: 10 }, None);
    let mut out: Vec<Case> = vec![];
    let len = b.bytes.len();
    let mut vb = b.bytes.clone();
    vb.extend_from_slice(&encode_trailer(b.proto));
    let ppct = pending_pct(&mut r);

    let valid = |sched: Schedule, kind: &str| -> Case {
        let mut c = mk_case(prop, &b, unit);
        c.bytes = vb.clone();
        c.valid_len = Some(len);
        c.sched = sched;
        c.fault_kind = kind.into();
        c
    };
    out.push(valid(Schedule::whole(), "sched_whole"));
    out.push(valid(Schedule::bytewise(), "sched_bytewise"));
    // every single split point for short messages, a sample otherwise
    let exhaustive_max = if tier == Tier::Thorough { 512 } else { 96 };
    if len >= 2 {
        if len <= exhaustive_max {
            for k in 1..len {
                out.push(valid(Schedule::split_at(k), "sched_single_split"));
            }
        } else {
            for k in fault_positions(&mut r, &b, 32) {
                if k >= 1 {
                    out.push(valid(Schedule::split_at(k), "sched_single_split"));
                }
            }
        }
    }
    let nrand = if tier == Tier::Thorough { 24 } else { 8 };
    for _ in 0..nrand {
        out.push(valid(Schedule::random(&mut r, vb.len(), ppct), "sched_random"));
    }
    // truncations: the same prefix on both legs, then EOF
    let ntr = if tier == Tier::Thorough { 24 } else { 8 };
    for k in fault_positions(&mut r, &b, ntr) {
        let mut c = mk_case(prop, &b, unit);
        c.bytes = b.bytes[..k].to_vec();
        c.sched = Schedule::random(&mut r, k.max(1), ppct);
        c.fault = format!("truncate@{}", k);
        c.fault_kind = "eof_truncate".into();
        out.push(c);
    }
    // single bit flips
    let nfl = if tier == Tier::Thorough { 24 } else { 8 };
    if len > 0 {
        for _ in 0..nfl {
            let pos = if !b.spans.is_empty() && r.chance(1, 2) {
                let sp = r.pick(&b.spans);
                (sp.start + r.below((sp.end - sp.start).max(1) as u64) as usize).min(len - 1)
            } else {
                r.below(len as u64) as usize
            };
            let bit = r.below(8) as u8;
            let mut c = mk_case(prop, &b, unit);
            c.bytes = b.bytes.clone();
            c.bytes[pos] ^= 1 << bit;
            c.sched = Schedule::random(&mut r, len, ppct);
            c.fault = format!("flip@{}.{}", pos, bit);
            c.fault_kind = "bit_flip".into();
            out.push(c);
        }
    }
    for (i, c) in out.iter_mut().enumerate() {
        c.idx = i as u64;
    }
    out
}

// ------------------------------------------------------------------- C07

fn chain_bytes(proto: Proto, depth: usize) -> Vec<u8> {
    // `depth` nested structs, each holding the next one in field 1; built
    // without a value tree so that 100 000 levels cost no recursion.
    let mut v = Vec::with_capacity(depth * 4);
    for _ in 1..depth {
        match proto {
            Proto::Binary => v.extend_from_slice(&[T_STRUCT, 0, 1]),
            Proto::BinaryLE => v.extend_from_slice(&[T_STRUCT, 1, 0]),
            Proto::Compact => v.push(0x1C),
        }
    }
    v.extend(std::iter::repeat(0u8).take(depth));
    v
}

pub fn unit_c07(w: &World, seed: u64, unit: u64, tier: Tier) -> Vec<Case> {
    let prop = "C07";
    let _ = w;
    let mut r = Rng::derive(seed, &[prop_tag(prop), unit]);
    let proto = pick_proto(&mut r);
    let mut out: Vec<Case> = vec![];
    let ppct = pending_pct(&mut r);
    let trailer = encode_trailer(proto);
    let nrand = if tier == Tier::Thorough { 12 } else { 4 };

    let flavour = r.below(10);
    if flavour < 6 {
        // an arbitrary value of an arbitrary wire type
        let knobs = Knobs::swarm(&mut r);
        let long_form = r.chance(1, 8);
        let mut cx = GenCtx::new(&mut r, knobs);
        let t = cx.any_type();
        let tv = cx.any_of_type(t, 1);
        let e = encode_value(proto, &tv, long_form);
        let mut bb = 60;
        let note = tv.brief(&mut bb);
        let base = Base { proto, level: Level::Skip(t), bytes: e.out.clone(), spans: e.spans, note: note.clone(), tv: None, conforming: true };
        let len = base.bytes.len();
        let mut vb = base.bytes.clone();
        vb.extend_from_slice(&trailer);
        let mut scheds = vec![Schedule::whole(), Schedule::bytewise()];
        if len >= 2 && len <= 64 {
            for k in 1..len {
                scheds.push(Schedule::split_at(k));
            }
        }
        for _ in 0..nrand {
            scheds.push(Schedule::random(&mut r, vb.len(), ppct));
        }
        for (i, s) in scheds.into_iter().enumerate() {
            let mut c = mk_case(prop, &base, unit);
            c.bytes = vb.clone();
            c.valid_len = Some(len);
            c.sched = s;
            c.run_mem = i == 0; // the in-memory half has one schedule
            c.fault_kind = "skip_value".into();
            out.push(c);
        }
        // the same value as an unknown field followed by a sibling field
        let ida: i16 = *r.pick(&[1i16, 2, 7, 15, 16, 100, 3000, -3]);
        let idb: i16 = if r.chance(3, 4) { ida.saturating_add(r.range(1, 15) as i16) } else { *r.pick(&[1i16, 500, -9, 32767]) };
        let sentinel = TV::I64(0x0123_4567_89AB_CDEFu64 as i64 ^ unit as i64);
        let st = TV::Struct(vec![(ida, tv.clone()), (idb, sentinel.clone())]);
        let se = encode_value(proto, &st, long_form);
        let xlen = encoded_len_as_field_value(proto, &tv, long_form);
        let expect = format!("{:?}", TV::Struct(vec![(ida, TV::I64(xlen as i64)), (idb, sentinel.clone())]));
        let slen = se.out.len();
        let mut svb = se.out.clone();
        svb.extend_from_slice(&trailer);
        let fbase = Base { proto, level: Level::SkipField, bytes: se.out.clone(), spans: vec![], note: format!("{{{}:{},{}:S}}", ida, note, idb), tv: None, conforming: true };
        let mut scheds = vec![Schedule::whole(), Schedule::bytewise()];
        for _ in 0..nrand {
            scheds.push(Schedule::random(&mut r, svb.len(), ppct));
        }
        for (i, s) in scheds.into_iter().enumerate() {
            let mut c = mk_case(prop, &fbase, unit);
            c.bytes = svb.clone();
            c.valid_len = Some(slen);
            c.expect = Some(expect.clone());
            c.sched = s;
            c.run_mem = i == 0;
            c.fault_kind = "skip_field".into();
            out.push(c);
        }
        if proto == Proto::Binary {
            let mut c = mk_case(prop, &fbase, unit);
            c.level = Level::SkipUnchecked;
            c.bytes = se.out.clone();
            c.valid_len = Some(slen);
            c.expect = Some(expect.clone());
            c.run_stream = false;
            c.fault_kind = "skip_unchecked".into();
            out.push(c);
        }
    } else if flavour < 9 {
        // depth band: nest 1..80
        let n = if tier == Tier::Thorough { 12 } else { 5 };
        for _ in 0..n {
            let d = match r.below(4) {
                0 => r.range(55, 60),
                1 => r.range(70, 80),
                _ => r.range(1, 80),
            } as usize;
            if (61..70).contains(&d) {
                continue;
            }
            let tv = if r.chance(1, 2) { struct_chain(d, r.range(1, 20) as i16) } else { container_chain(&mut r, d) };
            debug_assert_eq!(tv.depth(), d);
            let e = encode_value(proto, &tv, false);
            let len = e.out.len();
            let mut vb = e.out.clone();
            vb.extend_from_slice(&trailer);
            let base = Base { proto, level: Level::Skip(tv.ttype()), bytes: e.out, spans: vec![], note: format!("nest{}", d), tv: None, conforming: true };
            let refused = d >= 70;
            for (i, s) in [Schedule::whole(), Schedule::random(&mut r, vb.len(), ppct)].into_iter().enumerate() {
                let mut c = mk_case(prop, &base, unit);
                c.bytes = vb.clone();
                c.valid_len = Some(len);
                c.expect_refused = Some(refused);
                c.sched = s;
                c.run_mem = i == 0;
                c.fault_kind = if refused { "depth_over".into() } else { "depth_under".into() };
                out.push(c);
            }
            // through the unchecked reader's iterative skipper as an unknown field
            if proto == Proto::Binary {
                let st = TV::Struct(vec![(5, tv.clone()), (6, TV::I64(77))]);
                let se = encode_value(proto, &st, false);
                let xlen = encoded_len(proto, &tv, false);
                let mut c = mk_case(prop, &base, unit);
                c.level = Level::SkipUnchecked;
                c.valid_len = Some(se.out.len());
                c.bytes = se.out;
                c.expect = Some(format!("{:?}", TV::Struct(vec![(5, TV::I64(xlen as i64)), (6, TV::I64(77))])));
                c.expect_refused = Some(refused);
                c.run_stream = false;
                c.fault_kind = if refused { "depth_over".into() } else { "depth_under".into() };
                out.push(c);
            }
        }
    } else {
        // nesting bomb
        let d = *r.pick(&[200usize, 1000, 10_000, 100_000]);
        let bytes = chain_bytes(proto, d);
        let len = bytes.len();
        let base = Base { proto, level: Level::Skip(T_STRUCT), bytes, spans: vec![], note: format!("chain{}", d), tv: None, conforming: true };
        let mut vb = base.bytes.clone();
        vb.extend_from_slice(&trailer);
        let mut c = mk_case(prop, &base, unit);
        c.bytes = vb;
        c.valid_len = Some(len);
        c.expect_refused = Some(true);
        c.sched = Schedule::whole();
        c.fault_kind = "depth_bomb".into();
        out.push(c);
    }
    for (i, c) in out.iter_mut().enumerate() {
        c.idx = i as u64;
    }
    out
}

/// Length of `v` as it appears as a field value (compact bool fields carry
/// their value in the header and occupy no bytes of their own).
fn encoded_len_as_field_value(proto: Proto, v: &TV, long_form: bool) -> usize {
    if proto == Proto::Compact && matches!(v, TV::Bool(_)) {
        0
    } else {
        encoded_len(proto, v, long_form)
    }
}

// ------------------------------------------------------------ fault catalogue

pub struct Faulted {
    pub bytes: Vec<u8>,
    pub desc: String,
    pub kind: &'static str,
    pub strict_prefix: bool,
}

const TYPE_CODES: [u8; 20] = [0, 1, 2, 3, 4, 5, 6, 7, 8, 9, 10, 11, 12, 13, 14, 15, 16, 17, 0x7f, 0xff];

pub fn enumerate_faults(r: &mut Rng, b: &Base, tier: Tier, want_all_truncations: bool) -> Vec<Faulted> {
    let mut v = vec![];
    let len = b.bytes.len();
    let structish = b.conforming && (matches!(b.level, Level::Gen(_)) || matches!(b.level, Level::Prim(T_STRUCT)));
    // truncation at every offset (strict prefixes)
    if want_all_truncations || len <= 64 {
        for k in 0..len {
            v.push(Faulted { bytes: b.bytes[..k].to_vec(), desc: format!("truncate@{}", k), kind: "truncate", strict_prefix: structish });
        }
    } else {
        for k in fault_positions(r, b, 48) {
            v.push(Faulted { bytes: b.bytes[..k].to_vec(), desc: format!("truncate@{}", k), kind: "truncate", strict_prefix: structish });
        }
    }
    // bit flips: exhaustive for short messages
    let flip_exhaustive = if tier == Tier::Thorough { 128 } else { 40 };
    if len <= flip_exhaustive {
        for pos in 0..len {
            for bit in 0..8 {
                let mut x = b.bytes.clone();
                x[pos] ^= 1 << bit;
                v.push(Faulted { bytes: x, desc: format!("flip@{}.{}", pos, bit), kind: "bit_flip", strict_prefix: false });
            }
        }
    } else {
        let n = if tier == Tier::Thorough { 512 } else { 96 };
        for _ in 0..n {
            let pos = r.below(len as u64) as usize;
            let bit = r.below(8);
            let mut x = b.bytes.clone();
            x[pos] ^= 1 << bit;
            v.push(Faulted { bytes: x, desc: format!("flip@{}.{}", pos, bit), kind: "bit_flip", strict_prefix: false });
        }
    }
    // every length / count span overwritten with the boundary set
    let max_spans = if tier == Tier::Thorough { 400 } else { 60 };
    let mut span_idx: Vec<usize> = (0..b.spans.len()).collect();
    if span_idx.len() > max_spans {
        // sample without replacement
        for i in 0..max_spans {
            let j = i + r.below((span_idx.len() - i) as u64) as usize;
            span_idx.swap(i, j);
        }
        span_idx.truncate(max_spans);
        span_idx.sort_unstable();
    }
    for &i in &span_idx {
        let sp = b.spans[i];
        let rem = (len - sp.end) as i64;
        match sp.kind {
            SpanKind::Len | SpanKind::Count | SpanKind::CollHdr => {
                let vals: [i64; 12] = [-1, 0, 1, rem - 1, rem, rem + 1, 1 << 16, 1 << 24, i32::MAX as i64, u32::MAX as i64, i32::MIN as i64, (rem / 2).max(2)];
                for val in vals {
                    let kind = if sp.kind == SpanKind::Len { "len_overwrite" } else { "count_overwrite" };
                    v.push(Faulted {
                        bytes: overwrite_span(b.proto, &b.bytes, &sp, val),
                        desc: format!("overwrite {:?}@{}..{}={}", sp.kind, sp.start, sp.end, val),
                        kind,
                        strict_prefix: false,
                    });
                }
            }
            SpanKind::Type | SpanKind::FieldHdr => {
                let codes: Vec<u8> = if tier == Tier::Thorough { TYPE_CODES.to_vec() } else { (0..4).map(|_| *r.pick(&TYPE_CODES)).collect() };
                for code in codes {
                    let mut x = b.bytes.clone();
                    // keep the other nibble in compact headers
                    if b.proto == Proto::Compact {
                        x[sp.start] = (x[sp.start] & 0xF0) | (code & 0x0F);
                    } else {
                        x[sp.start] = code;
                    }
                    if x == b.bytes {
                        continue;
                    }
                    v.push(Faulted { bytes: x, desc: format!("type@{}={}", sp.start, code), kind: "type_overwrite", strict_prefix: false });
                }
            }
            SpanKind::FieldId => {
                for val in [0i64, 1, -1, 32767, -32768] {
                    v.push(Faulted {
                        bytes: overwrite_span(b.proto, &b.bytes, &sp, val),
                        desc: format!("field_id@{}={}", sp.start, val),
                        kind: "field_id_overwrite",
                        strict_prefix: false,
                    });
                }
            }
            SpanKind::Payload | SpanKind::Stop => {}
        }
    }
    // span drop / duplication
    if !b.spans.is_empty() {
        let n = if tier == Tier::Thorough { 24 } else { 6 };
        for _ in 0..n {
            let sp = *r.pick(&b.spans);
            if sp.end == sp.start {
                continue;
            }
            let mut x = Vec::with_capacity(len);
            x.extend_from_slice(&b.bytes[..sp.start]);
            x.extend_from_slice(&b.bytes[sp.end..]);
            v.push(Faulted { bytes: x, desc: format!("drop {}..{}", sp.start, sp.end), kind: "span_drop", strict_prefix: false });
            let mut x = Vec::with_capacity(len + sp.end - sp.start);
            x.extend_from_slice(&b.bytes[..sp.end]);
            x.extend_from_slice(&b.bytes[sp.start..]);
            v.push(Faulted { bytes: x, desc: format!("dup {}..{}", sp.start, sp.end), kind: "span_dup", strict_prefix: false });
        }
    }
    v
}

fn random_bytes_cases(r: &mut Rng) -> Vec<Faulted> {
    let mut v = vec![];
    for _ in 0..8 {
        let n = *r.pick(&[0usize, 1, 2, 3, 5, 9, 17, 40, 200]);
        let mut x = r.bytes(n);
        // bias towards bytes that mean something: type codes and small numbers
        if r.chance(1, 2) {
            for b in x.iter_mut() {
                if r.chance(1, 2) {
                    *b = *r.pick(&[0u8, 1, 2, 3, 4, 6, 8, 10, 11, 12, 13, 14, 15, 16, 0x1c, 0x19, 0x82, 0x80, 0xff]);
                }
            }
        }
        v.push(Faulted { bytes: x, desc: format!("random[{}]", n), kind: "random_bytes", strict_prefix: false });
    }
    v
}

// ------------------------------------------------------------------- C09

pub fn unit_c09(w: &World, seed: u64, unit: u64, tier: Tier) -> Vec<Case> {
    let prop = "C09";
    let mut r = Rng::derive(seed, &[prop_tag(prop), unit]);
    let mut out: Vec<Case> = vec![];
    let ppct = pending_pct(&mut r);
    let flavour = r.below(20);
    if flavour == 0 {
        // nesting bombs against generated recursive types and the skippers
        let proto = pick_proto(&mut r);
        let d = *r.pick(&[10usize, 64, 65, 200, 1000, 5000, 20_000, 200_000]);
        // Tree.f2 is `optional Tree`: field 2 of type struct all the way down
        let mut bytes = Vec::new();
        for _ in 1..d {
            match proto {
                Proto::Binary => bytes.extend_from_slice(&[T_STRUCT, 0, 2]),
                Proto::BinaryLE => bytes.extend_from_slice(&[T_STRUCT, 2, 0]),
                Proto::Compact => bytes.push(0x2C),
            }
        }
        bytes.extend(std::iter::repeat(0u8).take(d));
        for lv in [Level::Gen("Tree".into()), Level::Gen("keep::Tree".into()), Level::Gen("Leaf".into()), Level::Skip(T_STRUCT)] {
            let base = Base { proto, level: lv, bytes: bytes.clone(), spans: vec![], note: format!("bomb{}", d), tv: None, conforming: true };
            for stream in [false, true] {
                let mut c = mk_case(prop, &base, unit);
                c.bytes = bytes.clone();
                c.run_mem = !stream;
                c.run_stream = stream;
                c.sched = if stream { Schedule::random(&mut r, bytes.len(), ppct) } else { Schedule::whole() };
                c.fault = format!("nest{}", d);
                c.fault_kind = "nesting_bomb".into();
                out.push(c);
            }
        }
        // container-of-container bombs: list<list<...>> headers only
        let mut cb = Vec::new();
        for _ in 0..d.min(5000) {
            match proto {
                Proto::Binary => cb.extend_from_slice(&[T_LIST, 0, 0, 0, 1]),
                Proto::BinaryLE => cb.extend_from_slice(&[T_LIST, 1, 0, 0, 0]),
                Proto::Compact => cb.push(0x19),
            }
        }
        let base = Base { proto, level: Level::Skip(T_LIST), bytes: cb.clone(), spans: vec![], note: format!("listbomb{}", d), tv: None, conforming: true };
        for stream in [false, true] {
            let mut c = mk_case(prop, &base, unit);
            c.bytes = cb.clone();
            c.run_mem = !stream;
            c.run_stream = stream;
            c.fault = format!("listnest{}", d);
            c.fault_kind = "nesting_bomb".into();
            out.push(c);
        }
    } else {
        let b = gen_base(w, &mut r, Mix { gen: 60, prim: 30, envelope: 10 }, None);
        let mut faults = enumerate_faults(&mut r, &b, tier, true);
        faults.extend(random_bytes_cases(&mut r));
        // the unfaulted message itself, too
        faults.push(Faulted { bytes: b.bytes.clone(), desc: "none".into(), kind: "none", strict_prefix: false });
        for f in faults {
            let mut c = mk_case(prop, &b, unit);
            c.bytes = f.bytes;
            c.fault = f.desc;
            c.fault_kind = f.kind.into();
            c.strict_prefix = f.strict_prefix;
            // in-memory leg
            let mut cm = c.clone();
            cm.run_stream = false;
            out.push(cm);
            // stream leg under a seeded schedule, sometimes with an I/O error
            let mut cs = c;
            cs.run_mem = false;
            let l = cs.bytes.len();
            cs.sched = match r.below(4) {
                0 => Schedule::whole(),
                1 => Schedule::bytewise(),
                _ => Schedule::random(&mut r, l.max(1), ppct),
            };
            if r.chance(1, 5) && l > 0 {
                cs.sched.io_error = Some((r.below(l as u64 + 1) as usize, *r.pick(&IoKind::ALL)));
                // with an injected error an Ok outcome is legitimate only if the error lies beyond what is read
                cs.strict_prefix = false;
            }
            out.push(cs);
        }
    }
    for (i, c) in out.iter_mut().enumerate() {
        c.idx = i as u64;
    }
    out
}

// ------------------------------------------------------------------- C19

pub fn unit_c19(w: &World, seed: u64, unit: u64, tier: Tier) -> Vec<Case> {
    let prop = "C19";
    let mut r = Rng::derive(seed, &[prop_tag(prop), unit]);
    let mut out: Vec<Case> = vec![];
    let ppct = pending_pct(&mut r);
    let proto = *r.pick(&[Proto::Binary, Proto::Compact, Proto::Binary, Proto::Compact, Proto::BinaryLE]);
    let b = gen_base(w, &mut r, Mix { gen: 90, prim: 10, envelope: 0 }, Some(proto));
    let faults = enumerate_faults(&mut r, &b, tier, true);
    for f in faults {
        let mut c = mk_case(prop, &b, unit);
        c.bytes = f.bytes;
        c.fault = f.desc;
        c.fault_kind = f.kind.into();
        let mut cm = c.clone();
        cm.run_stream = false;
        out.push(cm);
        let mut cs = c;
        cs.run_mem = false;
        let l = cs.bytes.len();
        cs.sched = match r.below(3) {
            0 => Schedule::whole(),
            _ => Schedule::random(&mut r, l.max(1), ppct),
        };
        if r.chance(1, 6) && l > 0 {
            cs.sched.io_error = Some((r.below(l as u64 + 1) as usize, *r.pick(&IoKind::ALL)));
        }
        out.push(cs);
    }
    for (i, c) in out.iter_mut().enumerate() {
        c.idx = i as u64;
    }
    out
}

pub fn unit_cases(w: &World, prop: &str, seed: u64, unit: u64, tier: Tier) -> Vec<Case> {
    match prop {
        "C12" => unit_c12(w, seed, unit, tier),
        "C07" => unit_c07(w, seed, unit, tier),
        "C09" => unit_c09(w, seed, unit, tier),
        "C19" => unit_c19(w, seed, unit, tier),
        _ => vec![],
    }
}
