// Replay and minimisation. Every candidate is evaluated in a child process
// (`eval-case`), so crashes, stack overflows and allocation-cap aborts are
// handled the same way as ordinary violations.

use std::io::Read;
use std::process::{Command, Stdio};

use serde_json::Value;

use crate::case::{Case, Violation};
use crate::props::Judge;
use crate::stream::{Ev, Schedule};
use crate::units::World;

pub fn eval_case_main(file: &str) {
    let s = std::fs::read_to_string(file).unwrap_or_else(|e| {
        eprintln!("harness error: cannot read {}: {}", file, e);
        std::process::exit(2)
    });
    let v: Value = serde_json::from_str(&s).unwrap_or_else(|e| {
        eprintln!("harness error: {} is not JSON: {}", file, e);
        std::process::exit(2)
    });
    let cj = v.get("case").unwrap_or(&v);
    let Some(case) = Case::from_json(cj) else {
        eprintln!("harness error: {} does not hold a case", file);
        std::process::exit(2)
    };
    crate::eval::install_panic_hook();
    let h = std::thread::Builder::new()
        .stack_size(2 * 1024 * 1024)
        .spawn(move || {
            let w = World::new();
            let mut j = Judge::new(&w);
            println!("BEGIN");
            let vs = j.run(&case);
            for v in vs {
                println!("V {}", v.to_json());
            }
            println!("DONE");
        })
        .unwrap();
    let _ = h.join();
}

/// Evaluate a case in a child process. Returns the violations it produced
/// (including a synthesised one if the child died).
pub fn eval_in_child(case: &Case, scratch: &str, n: usize) -> Vec<Violation> {
    let path = format!("{}/cand-{}.json", scratch, n);
    std::fs::write(&path, case.to_json().to_string()).expect("write candidate");
    let exe = std::env::current_exe().expect("exe");
    let mut child = Command::new(exe).arg("eval-case").arg(&path).env("RUST_BACKTRACE", "0").stdin(Stdio::null()).stdout(Stdio::piped()).stderr(Stdio::piped()).spawn().expect("spawn eval-case");
    let mut out = String::new();
    let mut err = String::new();
    // bounded wait: 30 s
    let t0 = std::time::Instant::now();
    let mut so = child.stdout.take().unwrap();
    let mut se = child.stderr.take().unwrap();
    let h1 = std::thread::spawn(move || {
        let mut s = String::new();
        let _ = so.read_to_string(&mut s);
        s
    });
    let h2 = std::thread::spawn(move || {
        let mut s = Vec::new();
        let _ = se.read_to_end(&mut s);
        String::from_utf8_lossy(&s).to_string()
    });
    let mut hang = false;
    let status = loop {
        match child.try_wait() {
            Ok(Some(st)) => break st,
            Ok(None) => {
                if t0.elapsed().as_secs() > 8 {
                    hang = true;
                    let _ = child.kill();
                }
                std::thread::sleep(std::time::Duration::from_millis(2));
            }
            Err(_) => std::process::exit(2),
        }
    };
    out.push_str(&h1.join().unwrap_or_default());
    err.push_str(&h2.join().unwrap_or_default());
    let _ = std::fs::remove_file(&path);
    let mut vs = vec![];
    let mut done = false;
    for line in out.lines() {
        if let Some(j) = line.strip_prefix("V ") {
            if let Ok(v) = serde_json::from_str::<Value>(j) {
                if let Some(v) = Violation::from_json(&v) {
                    vs.push(v);
                }
            }
        } else if line == "DONE" {
            done = true;
        }
    }
    if !done {
        let (class, site) = if hang { ("hang".to_string(), crate::controller::HANG_SITE.to_string()) } else { crate::controller::classify_death(&status, &err) };
        if let Some(v) = crate::controller::death_violation(&case.prop, case, &class, &site, &err) {
            vs.push(v);
        }
    }
    vs
}

fn same(v: &Violation, class: &str, site: &str) -> bool {
    // allocation sites carry the request size in brackets: compare the part before it
    let a = v.site.split(" [").next().unwrap_or("");
    let b = site.split(" [").next().unwrap_or("");
    v.class == class && a == b
}

pub fn minimise(v: &Violation, verif_dir: &str) -> Violation {
    let scratch = format!("{}/target/sim-scratch/min-{}", verif_dir, std::process::id());
    let _ = std::fs::create_dir_all(&scratch);
    let mut best = v.clone();
    let mut n = 0usize;
    let budget = 400usize;
    let mut try_case = |c: &Case, best: &mut Violation, n: &mut usize| -> bool {
        if *n >= budget {
            return false;
        }
        *n += 1;
        let vs = eval_in_child(c, &scratch, *n);
        if let Some(hit) = vs.into_iter().find(|x| same(x, &v.class, &v.site)) {
            *best = hit;
            true
        } else {
            false
        }
    };
    // the original must reproduce, otherwise report it unminimised
    let c0 = best.case.clone();
    if !try_case(&c0, &mut best, &mut n) {
        let _ = std::fs::remove_dir_all(&scratch);
        let mut b = v.clone();
        b.detail.push_str(" [not reproduced in a fresh process: reported unminimised]");
        return b;
    }
    // 1. simpler schedules
    for s in [Schedule::whole(), Schedule::bytewise()] {
        if best.case.run_stream && best.case.sched != s {
            let mut c = best.case.clone();
            c.sched = s;
            try_case(&c, &mut best, &mut n);
        }
    }
    if best.case.sched.io_error.is_some() {
        let mut c = best.case.clone();
        c.sched.io_error = None;
        try_case(&c, &mut best, &mut n);
    }
    // drop Pending events, then merge deliveries (delta debugging over the script)
    if best.case.run_stream && !best.case.sched.evs.is_empty() {
        let mut c = best.case.clone();
        c.sched.evs.retain(|e| matches!(e, Ev::Deliver(_)));
        if c.sched.evs.len() != best.case.sched.evs.len() {
            try_case(&c, &mut best, &mut n);
        }
        let mut chunk = (best.case.sched.evs.len() / 2).max(1);
        while chunk >= 1 && n < budget {
            let mut i = 0;
            let mut progressed = false;
            while i < best.case.sched.evs.len() && n < budget {
                let mut c = best.case.clone();
                let end = (i + chunk).min(c.sched.evs.len());
                c.sched.evs.drain(i..end);
                if try_case(&c, &mut best, &mut n) {
                    progressed = true;
                } else {
                    i += chunk;
                }
            }
            if chunk == 1 && !progressed {
                break;
            }
            chunk = if chunk > 1 { chunk / 2 } else { 1 };
            if chunk == 1 && !progressed && best.case.sched.evs.len() > 64 {
                break;
            }
        }
    }
    // 2. shorter input for faulted cases (cut the tail)
    if best.case.valid_len.is_none() {
        let mut cut = best.case.bytes.len() / 2;
        while cut >= 1 && n < budget {
            if best.case.bytes.len() > cut {
                let mut c = best.case.clone();
                let newlen = c.bytes.len() - cut;
                c.bytes.truncate(newlen);
                c.strict_prefix = false;
                if !try_case(&c, &mut best, &mut n) {
                    cut /= 2;
                }
            } else {
                cut /= 2;
            }
        }
    }
    let _ = std::fs::remove_dir_all(&scratch);
    best.detail.push_str(&format!(" [minimised with {} candidate evaluations]", n));
    best
}

/// Exit code 1 iff the recorded violation class and site recur.
pub fn replay_file(file: &str) -> i32 {
    let Ok(s) = std::fs::read_to_string(file) else {
        eprintln!("harness error: cannot read {}", file);
        return 2;
    };
    let Ok(j) = serde_json::from_str::<Value>(&s) else {
        eprintln!("harness error: {} is not JSON", file);
        return 2;
    };
    let Some(v) = Violation::from_json(&j) else {
        eprintln!("harness error: {} is not a replay file", file);
        return 2;
    };
    let scratch = format!("/verif/target/sim-scratch/replay-{}", std::process::id());
    let _ = std::fs::create_dir_all(&scratch);
    let vs = eval_in_child(&v.case, &scratch, 0);
    let _ = std::fs::remove_dir_all(&scratch);
    println!("replaying {}: property={} class={} site={}", file, v.prop, v.class, v.site);
    for x in &vs {
        println!("  observed: class={} site={} detail={}", x.class, x.site, x.detail);
    }
    if vs.iter().any(|x| same(x, &v.class, &v.site)) {
        println!("REPRODUCED property={} class={}", v.prop, v.class);
        1
    } else {
        println!("NOT-REPRODUCED property={} class={}", v.prop, v.class);
        0
    }
}

/// Print one line per case: unit, idx, case digest, outcome digest. Used to
/// show that a run is a pure function of the seed.
pub fn trace_main(prop: &str, seed: u64, from: u64, to: u64) {
    crate::eval::install_panic_hook();
    let prop = prop.to_string();
    let h = std::thread::Builder::new()
        .stack_size(2 * 1024 * 1024)
        .spawn(move || {
            let w = World::new();
            let mut j = Judge::new(&w);
            for u in from..to {
                let cases = crate::units::unit_cases(&w, &prop, seed, u, crate::units::Tier::Quick);
                let mut acc = 0u64;
                let mut nv = 0usize;
                for c in &cases {
                    let before = j.stats.counters.clone();
                    let vs = j.run(c);
                    nv += vs.len();
                    // outcome digest: the counter deltas of this case (classes, error kinds, polls, fired faults)
                    let mut parts = vec![c.digest()];
                    for (k, n) in &j.stats.counters {
                        let d = n - before.get(k).copied().unwrap_or(0);
                        if d > 0 {
                            parts.push(crate::rng::hash_str(k));
                            parts.push(d);
                        }
                    }
                    for v in &vs {
                        parts.push(crate::rng::hash_str(&v.class));
                        parts.push(crate::rng::hash_str(&v.site));
                    }
                    acc = crate::rng::mix(&[acc, crate::rng::mix(&parts)]);
                }
                println!("T {} {} cases={} violations={} digest={:016x}", prop, u, cases.len(), nv, acc);
            }
        })
        .unwrap();
    if h.join().is_err() {
        let p = crate::eval::GLOBAL_LAST_PANIC.lock().ok().and_then(|g| g.clone());
        eprintln!("harness error: simulator thread panicked: {:?}", p);
        std::process::exit(3);
    }
}

/// Print both legs' outcomes of the case in a replay file in full (debugging aid).
pub fn show_main(file: &str) {
    let s = std::fs::read_to_string(file).expect("read");
    let v: Value = serde_json::from_str(&s).expect("json");
    let case = Case::from_json(v.get("case").unwrap_or(&v)).expect("case");
    crate::eval::install_panic_hook();
    let w = World::new();
    let show = |name: &str, o: &crate::eval::LegOut| {
        let r = match &o.res {
            crate::eval::LegRes::Ok(v) => format!("Ok({})", v.debug()),
            crate::eval::LegRes::Err { info, .. } => format!("Err({} {})", info.kind, info.msg),
            crate::eval::LegRes::Panic { site, msg } => format!("Panic({} {})", site, msg),
            crate::eval::LegRes::Hang { polls } => format!("Hang({})", polls),
            crate::eval::LegRes::LostWake { polls } => format!("LostWake({})", polls),
        };
        println!("{}: consumed={} skip_ret={:?} total={} polls={} alloc={:?}\n  res={}\n  next={:?}", name, o.consumed, o.skip_ret, o.consumed_total, o.polls, o.alloc, r, o.next);
    };
    if let crate::case::Level::Pb(_) = &case.level {
        let m = crate::eval::run_pb(&case, case.run_stream, crate::eval::AllocCaps::default(), 0);
        show(if case.run_stream { "simbuf" } else { "bytes" }, &m);
        return;
    }
    if case.run_mem {
        let m = crate::eval::run_mem(&case, &w.gens, crate::eval::AllocCaps::default(), 0);
        show("mem", &m);
    }
    if case.run_stream {
        let m = crate::eval::run_stream(&case, &w.gens, crate::eval::AllocCaps::default(), 0);
        show("stream", &m);
    }
}
