// Running one case through real pilota code (in-memory leg and stream leg) and
// recording what happened. The oracles of the individual properties (props.rs)
// judge these records.

use std::cell::RefCell;
use std::panic::{catch_unwind, AssertUnwindSafe};

use bytes::{Buf, Bytes};
use pilota::thrift::{TAsyncInputProtocol, TInputProtocol, TType, ThriftException};

use crate::alloc;
use crate::{with_async_proto, with_mem_proto};
use crate::case::{Case, Level};
use crate::legs::*;
use crate::refenc::Proto;
use crate::stream::{self, Clock, ExecResult, SimStream, StreamStats};
use crate::tval::*;

pub static GLOBAL_LAST_PANIC: std::sync::Mutex<Option<(String, String)>> = std::sync::Mutex::new(None);

thread_local! {
    static LAST_PANIC: RefCell<Option<(String, String)>> = const { RefCell::new(None) };
}

/// Install a panic hook that records (site, message) instead of printing.
pub fn install_panic_hook() {
    std::panic::set_hook(Box::new(|info| {
        let site = info
            .location()
            .map(|l| {
                let f = l.file().trim_start_matches("/repo/");
                // registry crates: keep `<crate>-<version>/src/...`
                // generated code lives in the build's OUT_DIR
                let f = match f.find("/out/") {
                    Some(i) if f.contains("/build/pilota-sim-") => &f[i + 5..],
                    _ => f,
                };
                let f = match f.find("/registry/src/") {
                    Some(i) => f[i + 14..].splitn(2, '/').nth(1).unwrap_or(f),
                    None => f,
                };
                format!("{}:{}", f, l.line())
            })
            .unwrap_or_else(|| "?".into());
        let msg = if let Some(s) = info.payload().downcast_ref::<&str>() {
            s.to_string()
        } else if let Some(s) = info.payload().downcast_ref::<String>() {
            s.clone()
        } else {
            "<non-string panic>".into()
        };
        let mut msg = msg;
        if msg.len() > 200 {
            let mut cut = 200;
            while !msg.is_char_boundary(cut) {
                cut -= 1;
            }
            msg.truncate(cut);
        }
        if let Ok(mut g) = GLOBAL_LAST_PANIC.lock() {
            *g = Some((site.clone(), msg.clone()));
        }
        LAST_PANIC.with(|p| *p.borrow_mut() = Some((site, msg)));
    }));
}

/// (site, message) of the most recent panic on this thread, if any (used to report harness panics).
pub fn last_panic() -> Option<(String, String)> {
    LAST_PANIC.with(|p| p.borrow().clone())
}

fn take_panic() -> (String, String) {
    LAST_PANIC.with(|p| p.borrow_mut().take()).unwrap_or_else(|| ("?".into(), "?".into()))
}

pub enum Val {
    Tv(TV),
    Dyn(DynVal),
    /// skip: nothing returned
    Unit,
    /// message envelope + body
    Pair(Box<Val>, Box<Val>),
}

impl Val {
    pub fn debug(&self) -> String {
        match self {
            Val::Tv(t) => format!("{:?}", t),
            // Debug of a String holding invalid UTF-8 (from an unchecked conversion) may panic
            Val::Dyn(d) => catch_unwind(AssertUnwindSafe(|| d.debug())).unwrap_or_else(|_| {
                let _ = take_panic();
                String::from("<debug panicked>")
            }),
            Val::Unit => "()".into(),
            Val::Pair(a, b) => format!("({}, {})", a.debug(), b.debug()),
        }
    }
    pub fn same(&self, o: &Val) -> bool {
        match (self, o) {
            (Val::Tv(a), Val::Tv(b)) => a == b,
            (Val::Dyn(a), Val::Dyn(b)) => a.eq_dyn(b.as_ref()),
            (Val::Unit, Val::Unit) => true,
            (Val::Pair(a, b), Val::Pair(c, d)) => a.same(c) && b.same(d),
            _ => false,
        }
    }
}

pub enum LegRes {
    Ok(Val),
    Err { info: ErrInfo, depth_limit: bool, harness: bool },
    Panic { site: String, msg: String },
    Hang { polls: u64 },
    LostWake { polls: u64 },
}

impl LegRes {
    pub fn class(&self) -> &'static str {
        match self {
            LegRes::Ok(_) => "ok",
            LegRes::Err { .. } => "err",
            LegRes::Panic { .. } => "panic",
            LegRes::Hang { .. } => "hang",
            LegRes::LostWake { .. } => "lostwake",
        }
    }
    pub fn err_kind(&self) -> String {
        match self {
            LegRes::Err { info, .. } => info.kind.clone(),
            _ => String::new(),
        }
    }
}

pub struct LegOut {
    pub res: LegRes,
    /// bytes consumed from the input by the main operation
    pub consumed: usize,
    /// value returned by skip() on the in-memory side
    pub skip_ret: Option<usize>,
    /// result of reading the trailer with the same protocol instance
    pub next: Option<Result<TV, ErrInfo>>,
    /// bytes consumed after the trailer has been read as well
    pub consumed_total: usize,
    pub polls: u64,
    pub ticks: u64,
    pub stream: StreamStats,
    pub alloc: alloc::Window,
    /// input buffer uniquely owned again after the leg dropped everything
    pub input_unique: bool,
    /// the error object itself, kept alive until this LegOut is dropped (only while `hold_errors` is on)
    pub held: Option<Box<dyn std::any::Any>>,
}

thread_local! {
    static HOLD_ERRORS: std::cell::Cell<bool> = const { std::cell::Cell::new(false) };
}

/// While on, a failing leg keeps its error object alive inside the returned `LegOut` instead of
/// dropping it before returning (for probes that need two errors alive at the same time).
pub fn hold_errors(on: bool) {
    HOLD_ERRORS.with(|h| h.set(on));
}

fn holding() -> bool {
    HOLD_ERRORS.with(|h| h.get())
}

fn from_result_held(r: Result<Val, ThriftException>, held: &mut Option<Box<dyn std::any::Any>>) -> LegRes {
    match r {
        Err(e) if holding() => {
            let lr = LegRes::Err { info: err_info(&e), depth_limit: is_depth_limit(&e), harness: is_harness_err(&e) };
            *held = Some(Box::new(e));
            lr
        }
        other => from_result(other),
    }
}

fn from_result(r: Result<Val, ThriftException>) -> LegRes {
    match r {
        Ok(v) => LegRes::Ok(v),
        Err(e) => LegRes::Err { info: err_info(&e), depth_limit: is_depth_limit(&e), harness: is_harness_err(&e) },
    }
}

pub fn trailer_tv() -> TV {
    TV::Struct(vec![(1, TV::I64(0x5EA1_5EA1_5EA1)), (2, TV::Bool(true)), (3, TV::Binary(b"tail".to_vec()))])
}

/// Allocation limits for a leg. 0 = off.
#[derive(Clone, Copy, Default)]
pub struct AllocCaps {
    pub single: u64,
    pub window: u64,
}

// ------------------------------------------------------------------ memory leg

struct MemPart {
    res: Result<Val, ThriftException>,
    consumed: usize,
    skip_ret: Option<usize>,
    next: Option<Result<TV, ErrInfo>>,
    consumed_total: usize,
}

fn mem_main<P: TInputProtocol>(p: &mut P, level: &Level, total: usize, want_trailer: bool) -> MemPart
where
    P::Buf: Buf,
{
    let mut skip_ret = None;
    let res: Result<Val, ThriftException> = (|| match level {
        Level::Prim(t) => {
            let tt = ttype_of(*t).ok_or_else(|| pilota::thrift::new_protocol_exception(pilota::thrift::ProtocolExceptionKind::Unknown, "harness:bad-ttype"))?;
            Ok(Val::Tv(read_tv(p, tt, 0)?))
        }
        Level::Skip(t) => {
            let tt = ttype_of(*t).ok_or_else(|| pilota::thrift::new_protocol_exception(pilota::thrift::ProtocolExceptionKind::Unknown, "harness:bad-ttype"))?;
            let n = p.skip(tt)?;
            skip_ret = Some(n);
            Ok(Val::Unit)
        }
        Level::SkipField => {
            p.read_struct_begin()?;
            let f1 = p.read_field_begin()?;
            let before = p.buf().remaining();
            let n = p.skip(f1.field_type)?;
            let adv = before - p.buf().remaining();
            skip_ret = Some(n);
            p.read_field_end()?;
            let f2 = p.read_field_begin()?;
            let v2 = if f2.field_type == TType::Stop { TV::Bool(false) } else { read_tv(p, f2.field_type, 1)? };
            let mut fs = vec![(f1.id.unwrap_or(0), TV::I64(adv as i64)), (f2.id.unwrap_or(0), v2)];
            if f2.field_type != TType::Stop {
                p.read_field_end()?;
                let f3 = p.read_field_begin()?;
                if f3.field_type != TType::Stop {
                    fs.push((f3.id.unwrap_or(0), TV::I8(f3.field_type as u8 as i8)));
                }
            }
            p.read_struct_end()?;
            Ok(Val::Tv(TV::Struct(fs)))
        }
        Level::Envelope => {
            let m = p.read_message_begin()?;
            let body = read_tv(p, TType::Struct, 1)?;
            p.read_message_end()?;
            Ok(Val::Tv(TV::Struct(vec![
                (1, TV::Binary(m.name.as_bytes().to_vec())),
                (2, TV::I8(m.message_type as u8 as i8)),
                (3, TV::I32(m.sequence_number)),
                (4, body),
            ])))
        }
        Level::Envelopes => {
            let mut msgs = vec![];
            for i in 0..3i16 {
                let m = p.read_message_begin()?;
                let body = read_tv(p, TType::Struct, 1)?;
                p.read_message_end()?;
                msgs.push((
                    i + 1,
                    TV::Struct(vec![(1, TV::Binary(m.name.as_bytes().to_vec())), (2, TV::I8(m.message_type as u8 as i8)), (3, TV::I32(m.sequence_number)), (4, body)]),
                ));
            }
            Ok(Val::Tv(TV::Struct(msgs)))
        }
        Level::Gen(_) | Level::SkipUnchecked | Level::Pb(_) => unreachable!(),
    })();
    let consumed = total - p.buf().remaining();
    let mut next = None;
    if want_trailer && res.is_ok() {
        next = Some(read_tv(p, TType::Struct, 0).map_err(|e| err_info(&e)));
    }
    let consumed_total = total - p.buf().remaining();
    MemPart { res, consumed, skip_ret, next, consumed_total }
}

fn mem_unchecked(buf: &mut Bytes, total: usize) -> MemPart {
    use pilota::thrift::binary_unsafe::TBinaryUnsafeInputProtocol;
    let mut skip_ret = None;
    let mut p = unsafe { TBinaryUnsafeInputProtocol::new(buf) };
    let res: Result<Val, ThriftException> = (|| {
        p.read_struct_begin()?;
        let f1 = p.read_field_begin()?;
        let n = p.skip(f1.field_type)?;
        skip_ret = Some(n);
        p.read_field_end()?;
        let f2 = p.read_field_begin()?;
        let v2 = if f2.field_type == TType::I64 { TV::I64(p.read_i64()?) } else { TV::I8(f2.field_type as u8 as i8) };
        p.read_field_end()?;
        let f3 = p.read_field_begin()?;
        let mut fs = vec![(f1.id.unwrap_or(0), TV::I64(n as i64)), (f2.id.unwrap_or(0), v2)];
        if f3.field_type != TType::Stop {
            fs.push((f3.id.unwrap_or(0), TV::I8(f3.field_type as u8 as i8)));
        }
        p.read_struct_end()?;
        Ok(Val::Tv(TV::Struct(fs)))
    })();
    // bytes consumed = advanced part of trans + index
    let idx = p.index();
    let remaining = p.buf().remaining();
    let consumed = total - remaining + idx;
    MemPart { res, consumed, skip_ret, next: None, consumed_total: consumed }
}

pub fn run_mem(case: &Case, gens: &[GenType], caps: AllocCaps, tag: u64) -> LegOut {
    let total = case.bytes.len();
    let want_trailer = case.valid_len.map(|n| case.bytes.len() > n).unwrap_or(false);
    let input = Bytes::from(case.bytes.clone());
    let mut buf = input.clone();
    alloc::window_begin(tag, caps.single, caps.window);
    let r = catch_unwind(AssertUnwindSafe(|| match &case.level {
        Level::Gen(name) => {
            let (tname, call) = match name.strip_prefix("call::") {
                Some(t) => (t, true),
                None => (name.as_str(), false),
            };
            let g = gens.iter().find(|g| g.name == tname).expect("known generated type");
            (g.dec_mem)(case.proto, &mut buf, want_trailer, call)
        }
        Level::SkipUnchecked => {
            let p = mem_unchecked(&mut buf, total);
            GenMem { res: p.res, consumed: p.consumed, next: p.next, consumed_total: p.consumed_total, skip_ret: p.skip_ret }
        }
        lv => {
            let p = with_mem_proto!(case.proto, &mut buf, |p| mem_main(&mut p, lv, total, want_trailer));
            GenMem { res: p.res, consumed: p.consumed, next: p.next, consumed_total: p.consumed_total, skip_ret: p.skip_ret }
        }
    }));
    let win = alloc::window_end();
    let mut held: Option<Box<dyn std::any::Any>> = None;
    let (res, consumed, skip_ret, next, consumed_total) = match r {
        Ok(g) => (from_result_held(g.res, &mut held), g.consumed, g.skip_ret, g.next, g.consumed_total),
        Err(_) => {
            let (site, msg) = take_panic();
            (LegRes::Panic { site, msg }, 0, None, None, 0)
        }
    };
    // the exception itself was dropped in from_result(); drop the cursor and look at the input
    drop(buf);
    // (an empty Bytes has a static vtable and never reports unique)
    let input_unique = input.is_empty() || input.is_unique();
    drop(input);
    LegOut {
        res,
        consumed,
        skip_ret,
        next,
        consumed_total,
        polls: 0,
        ticks: 0,
        stream: StreamStats::default(),
        alloc: win,
        input_unique,
        held,
    }
}



pub struct GenMem {
    pub res: Result<Val, ThriftException>,
    pub consumed: usize,
    pub next: Option<Result<TV, ErrInfo>>,
    pub consumed_total: usize,
    pub skip_ret: Option<usize>,
}

fn envelope_tv(m: &pilota::thrift::TMessageIdentifier) -> TV {
    TV::Struct(vec![(1, TV::Binary(m.name.as_bytes().to_vec())), (2, TV::I8(m.message_type as u8 as i8)), (3, TV::I32(m.sequence_number))])
}

pub fn gen_dec_mem<T: pilota::thrift::Message + PartialEq + std::fmt::Debug + 'static>(proto: Proto, buf: &mut Bytes, want_trailer: bool, call: bool) -> GenMem {
    let total = buf.len();
    with_mem_proto!(proto, buf, |p| {
        let res = (|| {
            if call {
                // the service-call flow: envelope, generated body, message end - one protocol instance
                let m = p.read_message_begin()?;
                let v = T::decode(&mut p)?;
                p.read_message_end()?;
                Ok(Val::Pair(Box::new(Val::Tv(envelope_tv(&m))), Box::new(Val::Dyn(Box::new(v) as DynVal))))
            } else {
                T::decode(&mut p).map(|v| Val::Dyn(Box::new(v) as DynVal))
            }
        })();
        let consumed = total - p.buf().remaining();
        let mut next = None;
        if want_trailer && res.is_ok() {
            next = Some(read_tv(&mut p, TType::Struct, 0).map_err(|e| err_info(&e)));
        }
        let consumed_total = total - p.buf().remaining();
        GenMem { res, consumed, next, consumed_total, skip_ret: None }
    })
}

// ------------------------------------------------------------------ stream leg

pub struct AsyncPart {
    pub res: Result<Val, ThriftException>,
    pub consumed: usize,
    pub next: Option<Result<TV, ErrInfo>>,
}

async fn stream_main<P: TAsyncInputProtocol>(p: &mut P, level: &Level, pos: &std::sync::atomic::AtomicUsize, want_trailer: bool) -> AsyncPart {
    // `pos` mirrors SimStream::pos (the stream itself is mutably borrowed by the protocol)
    use std::sync::atomic::Ordering::Relaxed;
    let bad = || pilota::thrift::new_protocol_exception(pilota::thrift::ProtocolExceptionKind::Unknown, "harness:bad-ttype");
    let res: Result<Val, ThriftException> = async {
        match level {
            Level::Prim(t) => {
                let tt = ttype_of(*t).ok_or_else(bad)?;
                Ok(Val::Tv(read_tv_async(p, tt, 0).await?))
            }
            Level::Skip(t) => {
                let tt = ttype_of(*t).ok_or_else(bad)?;
                p.skip(tt).await?;
                Ok(Val::Unit)
            }
            Level::SkipField => {
                p.read_struct_begin().await?;
                let f1 = p.read_field_begin().await?;
                let before = pos.load(Relaxed);
                p.skip(f1.field_type).await?;
                let adv = pos.load(Relaxed) - before;
                p.read_field_end().await?;
                let f2 = p.read_field_begin().await?;
                let v2 = if f2.field_type == TType::Stop { TV::Bool(false) } else { read_tv_async(p, f2.field_type, 1).await? };
                let mut fs = vec![(f1.id.unwrap_or(0), TV::I64(adv as i64)), (f2.id.unwrap_or(0), v2)];
                if f2.field_type != TType::Stop {
                    p.read_field_end().await?;
                    let f3 = p.read_field_begin().await?;
                    if f3.field_type != TType::Stop {
                        fs.push((f3.id.unwrap_or(0), TV::I8(f3.field_type as u8 as i8)));
                    }
                }
                p.read_struct_end().await?;
                Ok(Val::Tv(TV::Struct(fs)))
            }
            Level::Envelope => {
                let m = p.read_message_begin().await?;
                let body = read_tv_async(p, TType::Struct, 1).await?;
                p.read_message_end().await?;
                Ok(Val::Tv(TV::Struct(vec![
                    (1, TV::Binary(m.name.as_bytes().to_vec())),
                    (2, TV::I8(m.message_type as u8 as i8)),
                    (3, TV::I32(m.sequence_number)),
                    (4, body),
                ])))
            }
            Level::Envelopes => {
                let mut msgs = vec![];
                for i in 0..3i16 {
                    let m = p.read_message_begin().await?;
                    let body = read_tv_async(p, TType::Struct, 1).await?;
                    p.read_message_end().await?;
                    msgs.push((
                        i + 1,
                        TV::Struct(vec![(1, TV::Binary(m.name.as_bytes().to_vec())), (2, TV::I8(m.message_type as u8 as i8)), (3, TV::I32(m.sequence_number)), (4, body)]),
                    ));
                }
                Ok(Val::Tv(TV::Struct(msgs)))
            }
            Level::Gen(_) | Level::SkipUnchecked | Level::Pb(_) => unreachable!(),
        }
    }
    .await;
    let consumed = pos.load(Relaxed);
    let mut next = None;
    if want_trailer && res.is_ok() {
        next = Some(read_tv_async(p, TType::Struct, 0).await.map_err(|e| err_info(&e)));
    }
    AsyncPart { res, consumed, next }
}

pub async fn gen_dec_async<T: pilota::thrift::Message + PartialEq + std::fmt::Debug + 'static>(
    proto: Proto,
    s: &mut PosStream,
    want_trailer: bool,
    call: bool,
) -> AsyncPart {
    use std::sync::atomic::Ordering::Relaxed;
    let pos = s.pos.clone();
    macro_rules! go {
        ($p:ident) => {{
            let res: Result<Val, ThriftException> = async {
                if call {
                    let m = $p.read_message_begin().await?;
                    let v = T::decode_async(&mut $p).await?;
                    $p.read_message_end().await?;
                    Ok(Val::Pair(Box::new(Val::Tv(envelope_tv(&m))), Box::new(Val::Dyn(Box::new(v) as DynVal))))
                } else {
                    T::decode_async(&mut $p).await.map(|v| Val::Dyn(Box::new(v) as DynVal))
                }
            }
            .await;
            let consumed = pos.load(Relaxed);
            let mut next = None;
            if want_trailer && res.is_ok() {
                next = Some(read_tv_async(&mut $p, TType::Struct, 0).await.map_err(|e| err_info(&e)));
            }
            AsyncPart { res, consumed, next }
        }};
    }
    with_async_proto!(proto, s, |p| go!(p))
}

/// SimStream plus a shared mirror of its read position (readable while the
/// protocol holds the stream).
pub struct PosStream {
    pub inner: SimStream,
    pub pos: std::sync::Arc<std::sync::atomic::AtomicUsize>,
}

impl tokio::io::AsyncRead for PosStream {
    fn poll_read(
        mut self: std::pin::Pin<&mut Self>,
        cx: &mut std::task::Context<'_>,
        buf: &mut tokio::io::ReadBuf<'_>,
    ) -> std::task::Poll<std::io::Result<()>> {
        let this = &mut *self;
        let r = std::pin::Pin::new(&mut this.inner).poll_read(cx, buf);
        this.pos.store(this.inner.pos, std::sync::atomic::Ordering::Relaxed);
        r
    }
}

pub fn poll_budget(len: usize, pendings: usize) -> u64 {
    4 * len as u64 + 8 * pendings as u64 + 64
}

pub fn run_stream(case: &Case, gens: &[GenType], caps: AllocCaps, tag: u64) -> LegOut {
    let want_trailer = case.valid_len.map(|n| case.bytes.len() > n).unwrap_or(false);
    let clock = Clock::new();
    let pos = std::sync::Arc::new(std::sync::atomic::AtomicUsize::new(0));
    let mut ps = PosStream { inner: SimStream::new(case.bytes.clone(), case.sched.clone(), clock.clone()), pos: pos.clone() };
    let budget = poll_budget(case.bytes.len(), case.sched.pending_events());
    alloc::window_begin(tag, caps.single, caps.window);
    let r = catch_unwind(AssertUnwindSafe(|| match &case.level {
        Level::Gen(name) => {
            let (tname, call) = match name.strip_prefix("call::") {
                Some(t) => (t, true),
                None => (name.as_str(), false),
            };
            let g = gens.iter().find(|g| g.name == tname).expect("known generated type");
            let fut = (g.dec_async)(case.proto, &mut ps, want_trailer, call);
            stream::run(&clock, fut, budget)
        }
        lv => {
            let proto = case.proto;
            let posr = pos.clone();
            let psr = &mut ps;
            let fut = async move { with_async_proto!(proto, psr, |p| stream_main(&mut p, lv, &posr, want_trailer).await) };
            stream::run(&clock, fut, budget)
        }
    }));
    let win = alloc::window_end();
    let stats = ps.inner.stats.clone();
    let total_pulled = ps.inner.pos;
    let mut held: Option<Box<dyn std::any::Any>> = None;
    let (res, consumed, next, polls, ticks) = match r {
        Ok(ExecResult::Done { out, polls, ticks }) => (from_result_held(out.res, &mut held), out.consumed, out.next, polls, ticks),
        Ok(ExecResult::OverBudget { polls }) => (LegRes::Hang { polls }, total_pulled, None, polls, 0),
        Ok(ExecResult::LostWake { polls }) => (LegRes::LostWake { polls }, total_pulled, None, polls, 0),
        Err(_) => {
            let (site, msg) = take_panic();
            (LegRes::Panic { site, msg }, total_pulled, None, 0, 0)
        }
    };
    drop(ps);
    drop(clock);
    drop(pos);
    LegOut {
        res,
        consumed,
        skip_ret: None,
        next,
        consumed_total: total_pulled,
        polls,
        ticks,
        stream: stats,
        alloc: win,
        input_unique: true,
        held,
    }
}

// --------------------------------------------------------------- protobuf legs

/// Run a protobuf leg. `fragmented` = through SimBuf with the case's chunk plan
/// (schedule events = chunk sizes), otherwise on one contiguous Bytes.
pub fn run_pb(case: &Case, fragmented: bool, caps: AllocCaps, tag: u64) -> LegOut {
    use crate::pwire::*;
    let Level::Pb(name) = &case.level else { unreachable!() };
    let total = case.bytes.len();
    let parts: Vec<&str> = name.split(':').collect();
    let chunks: Vec<u32> = case
        .sched
        .evs
        .iter()
        .filter_map(|e| match e {
            crate::stream::Ev::Deliver(n) => Some(*n),
            _ => None,
        })
        .collect();
    let mut stats = StreamStats::default();
    // the buffer is harness state: built before the measurement window opens
    let mut frag = if fragmented { Some(SimBuf::new(case.bytes.clone(), &chunks, case.sched.tail)) } else { None };
    let input_keep = if fragmented { None } else { Some(Bytes::from(case.bytes.clone())) };
    let mut cont = input_keep.clone();
    let wt = parts.get(2).and_then(|x| x.parse::<u8>().ok()).and_then(wire_type_of);
    let rep = parts.get(3) == Some(&"r");
    alloc::window_begin(tag, caps.single, caps.window);
    let r = catch_unwind(AssertUnwindSafe(|| -> (Result<(), pilota::prost::DecodeError>, usize, (u64, u64)) {
        macro_rules! with_buf {
            (|$b:ident| $body:expr) => {{
                if let Some($b) = frag.as_mut() {
                    let r = $body;
                    let left = bytes::Buf::remaining($b);
                    (r, total - left, ($b.chunk_calls.get(), $b.short_chunks.get()))
                } else {
                    let $b = cont.as_mut().unwrap();
                    let r = $body;
                    let left = bytes::Buf::remaining($b);
                    (r, total - left, (0, 0))
                }
            }};
        }
        match parts[0] {
            "pbgen" => with_buf!(|b| decode_gen(parts[1], &mut *b, false)),
            "pbgenld" => with_buf!(|b| decode_gen(parts[1], &mut *b, true)),
            "pbwrap" => with_buf!(|b| decode_wrapper(parts[1], &mut *b)),
            "pbcodec" => match wt {
                Some(wt) => with_buf!(|b| decode_codec(parts[1], wt, &mut *b, rep)),
                None => (Err(pilota::prost::DecodeError::new("harness:bad wire type")), 0, (0, 0)),
            },
            _ => (Err(pilota::prost::DecodeError::new("harness:bad level")), 0, (0, 0)),
        }
    }));
    let win = alloc::window_end();
    let mut held: Option<Box<dyn std::any::Any>> = None;
    let (res, consumed) = match r {
        Ok((Ok(()), consumed, st)) => {
            stats.polls = st.0;
            stats.short_reads = st.1;
            (LegRes::Ok(Val::Unit), consumed)
        }
        Ok((Err(e), consumed, st)) => {
            stats.polls = st.0;
            stats.short_reads = st.1;
            let msg = e.to_string();
            let harness = msg.contains("harness:");
            let kind = if msg.contains("recursion limit reached") {
                "pb:recursion_limit"
            } else if msg.contains("buffer underflow") {
                "pb:buffer_underflow"
            } else if msg.contains("invalid varint") {
                "pb:invalid_varint"
            } else if msg.contains("invalid wire type") {
                "pb:wire_type"
            } else if msg.contains("end group") {
                "pb:group"
            } else if msg.contains("UTF-8") {
                "pb:utf8"
            } else if msg.contains("delimited length exceeded") {
                "pb:length_exceeded"
            } else if msg.contains("invalid key") || msg.contains("invalid tag") {
                "pb:key"
            } else {
                "pb:other"
            };
            let mut m = msg;
            m.truncate(300);
            if holding() {
                held = Some(Box::new(e));
            }
            (LegRes::Err { info: ErrInfo { kind: kind.into(), msg: m }, depth_limit: kind == "pb:recursion_limit", harness }, consumed)
        }
        Err(_) => {
            let (site, msg) = take_panic();
            (LegRes::Panic { site, msg }, 0)
        }
    };
    drop(cont);
    drop(frag);
    let input_unique = match &input_keep {
        Some(b) => b.is_empty() || b.is_unique(),
        None => true,
    };
    LegOut { res, consumed, skip_ret: None, next: None, consumed_total: consumed, polls: 0, ticks: 0, stream: stats, alloc: win, input_unique, held }
}
