// Worker process: runs units on a thread with a 2 MiB stack, reports through
// stdout lines and a shared progress cell (so the controller knows which case
// was running if the process dies).

use std::io::Write;

use serde_json::json;

use crate::props::Judge;
use crate::units::{unit_cases, Tier, World};

pub struct Progress {
    ptr: *mut u64,
}

unsafe impl Send for Progress {}

impl Drop for Progress {
    fn drop(&mut self) {
        unsafe {
            libc::munmap(self.ptr as *mut libc::c_void, 32);
        }
    }
}

impl Progress {
    pub fn open(path: &str) -> Progress {
        use std::os::unix::io::AsRawFd;
        let f = std::fs::OpenOptions::new().read(true).write(true).create(true).truncate(false).open(path).expect("progress file");
        f.set_len(32).unwrap();
        let p = unsafe { libc::mmap(std::ptr::null_mut(), 32, libc::PROT_READ | libc::PROT_WRITE, libc::MAP_SHARED, f.as_raw_fd(), 0) };
        assert!(p != libc::MAP_FAILED, "mmap progress file");
        Progress { ptr: p as *mut u64 }
    }
    #[inline]
    pub fn set(&self, unit: u64, idx: u64, stage: u64) {
        unsafe {
            std::ptr::write_volatile(self.ptr, unit);
            std::ptr::write_volatile(self.ptr.add(1), idx);
            std::ptr::write_volatile(self.ptr.add(2), stage);
        }
    }
    pub fn get(&self) -> (u64, u64, u64) {
        unsafe { (std::ptr::read_volatile(self.ptr), std::ptr::read_volatile(self.ptr.add(1)), std::ptr::read_volatile(self.ptr.add(2))) }
    }
}

pub struct WorkerArgs {
    pub prop: String,
    pub seed: u64,
    pub tier: Tier,
    pub from: u64,
    pub to: u64,
    pub stride: u64,
    pub offset: u64,
    pub resume_unit: Option<u64>,
    pub resume_idx: u64,
    pub base: String,
    /// emit a stats checkpoint every N units (0 = property default)
    pub checkpoint: u64,
}

fn append_digests(path: &str, set: &mut std::collections::HashSet<u64>) {
    if set.is_empty() {
        return;
    }
    let mut buf = Vec::with_capacity(set.len() * 8);
    for d in set.iter() {
        buf.extend_from_slice(&d.to_le_bytes());
    }
    let mut f = std::fs::OpenOptions::new().create(true).append(true).open(path).expect("digest file");
    f.write_all(&buf).unwrap();
    set.clear();
}

pub fn worker_main(a: WorkerArgs) {
    crate::eval::install_panic_hook();
    let h = std::thread::Builder::new()
        .name("sim".into())
        .stack_size(2 * 1024 * 1024)
        .spawn(move || worker_body(a))
        .expect("spawn sim thread");
    if h.join().is_err() {
        let p = crate::eval::GLOBAL_LAST_PANIC.lock().ok().and_then(|g| g.clone());
        eprintln!("harness error: simulator thread panicked: {:?}", p);
        std::process::exit(3);
    }
}

fn worker_body(a: WorkerArgs) {
    let w = World::new();
    let progress = Progress::open(&format!("{}.progress", a.base));
    let stdout = std::io::stdout();
    let mut judge = Judge::new(&w);
    let mut units_done = 0u64;
    let mut last_emit = std::time::Instant::now();
    let mut u = a.from + a.offset;
    if let Some(ru) = a.resume_unit {
        u = ru;
    }
    let mut first = true;
    while u < a.to {
        let cases = unit_cases(&w, &a.prop, a.seed, u, a.tier);
        let start_idx = if first && a.resume_unit.is_some() { a.resume_idx as usize } else { 0 };
        first = false;
        for c in cases.iter().skip(start_idx) {
            progress.set(u, c.idx, 1);
            let vs = judge.run(c);
            if !vs.is_empty() {
                let mut o = stdout.lock();
                for v in vs {
                    let _ = writeln!(o, "V {}", v.to_json());
                }
                let _ = o.flush();
            }
        }
        progress.set(u, u64::MAX, 0);
        units_done += 1;
        u += a.stride;
        let every = if a.checkpoint > 0 { a.checkpoint } else if a.prop == "C09" || a.prop == "C19" { 1 } else { 4 };
        if units_done % every == 0 || (a.checkpoint == 0 && last_emit.elapsed().as_millis() > 500) || u >= a.to {
            emit_stats(&mut judge, &a.base, units_done);
            units_done = 0;
            last_emit = std::time::Instant::now();
        }
    }
    emit_stats(&mut judge, &a.base, units_done);
    let mut o = stdout.lock();
    let _ = writeln!(o, "DONE");
    let _ = o.flush();
}

fn emit_stats(judge: &mut Judge, base: &str, units_done: u64) {
    let mut st = std::mem::take(&mut judge.stats);
    append_digests(&format!("{}.cases", base), &mut st.cases);
    append_digests(&format!("{}.scheds", base), &mut st.schedules);
    append_digests(&format!("{}.states", base), &mut st.states);
    let line = json!({"counters": st.counters, "evaluations": st.evaluations, "samples": st.samples, "units": units_done});
    let stdout = std::io::stdout();
    let mut o = stdout.lock();
    let _ = writeln!(o, "S {}", line);
    let _ = o.flush();
}
