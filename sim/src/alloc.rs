// The allocator seam: exact accounting of every request made by the thread
// under measurement, and a cap that refuses absurd single requests.

use std::alloc::{GlobalAlloc, Layout, System};
use std::cell::Cell;

pub struct Counting;

thread_local! {
    static LIVE: Cell<isize> = const { Cell::new(0) };
    static REQUESTED: Cell<u64> = const { Cell::new(0) };
    static MAX_REQ: Cell<u64> = const { Cell::new(0) };
    static CALLS: Cell<u64> = const { Cell::new(0) };
    /// single-request cap for this thread; 0 = off
    static CAP: Cell<u64> = const { Cell::new(0) };
    /// cumulative cap on bytes requested in the current window; 0 = off
    static WINDOW_CAP: Cell<u64> = const { Cell::new(0) };
    static TAG: Cell<u64> = const { Cell::new(0) };
}

fn note_alloc(size: usize) -> bool {
    // returns false when the request must be refused
    let mut ok = true;
    let _ = REQUESTED.try_with(|r| {
        let total = r.get() + size as u64;
        r.set(total);
        let _ = MAX_REQ.try_with(|m| {
            if size as u64 > m.get() {
                m.set(size as u64)
            }
        });
        let _ = CALLS.try_with(|c| c.set(c.get() + 1));
        let cap = CAP.try_with(|c| c.get()).unwrap_or(0);
        let wcap = WINDOW_CAP.try_with(|c| c.get()).unwrap_or(0);
        if (cap != 0 && size as u64 > cap) || (wcap != 0 && total > wcap) {
            ok = false;
        }
    });
    if ok {
        let _ = LIVE.try_with(|l| l.set(l.get() + size as isize));
    }
    ok
}

fn refuse(size: usize) {
    // no allocation, no PRNG: format by hand into a stack buffer
    let tag = TAG.try_with(|t| t.get()).unwrap_or(0);
    let total = REQUESTED.try_with(|t| t.get()).unwrap_or(0);
    let mut buf = [0u8; 128];
    let mut n = 0;
    let mut put = |s: &[u8], buf: &mut [u8; 128], n: &mut usize| {
        for b in s {
            if *n < buf.len() {
                buf[*n] = *b;
                *n += 1;
            }
        }
    };
    put(b"ALLOC-CAP tag=", &mut buf, &mut n);
    put_num(tag, &mut buf, &mut n);
    put(b" size=", &mut buf, &mut n);
    put_num(size as u64, &mut buf, &mut n);
    put(b" window=", &mut buf, &mut n);
    put_num(total, &mut buf, &mut n);
    put(b"\n", &mut buf, &mut n);
    unsafe {
        libc::write(2, buf.as_ptr() as *const libc::c_void, n);
    }
    // name the requesting call site (the process is about to abort: the caps
    // are switched off so that capturing the backtrace may allocate)
    let _ = CAP.try_with(|c| c.set(0));
    let _ = WINDOW_CAP.try_with(|c| c.set(0));
    // resolve frame by frame and stop at the first pilota / generated-code frame: the frames
    // below it (executor, thread start, libc) are never symbolised
    let mut site = String::from("?");
    let mut n = 0;
    backtrace::trace(|frame| {
        n += 1;
        if n > 64 {
            return false;
        }
        let mut found = false;
        backtrace::resolve_frame(frame, |sym| {
            if found {
                return;
            }
            if let Some(name) = sym.name() {
                let name = format!("{:#}", name);
                if (name.contains("pilota::") || name.contains("corpus")) && !name.contains("pilota_sim::alloc") {
                    site = name;
                    found = true;
                }
            }
        });
        !found
    });
    let msg = format!("ALLOC-SITE {}\n", site);
    unsafe {
        libc::write(2, msg.as_ptr() as *const libc::c_void, msg.len());
    }
}

fn put_num(mut v: u64, buf: &mut [u8; 128], n: &mut usize) {
    let mut tmp = [0u8; 20];
    let mut i = 0;
    if v == 0 {
        tmp[0] = b'0';
        i = 1;
    }
    while v > 0 {
        tmp[i] = b'0' + (v % 10) as u8;
        v /= 10;
        i += 1;
    }
    while i > 0 {
        i -= 1;
        if *n < buf.len() {
            buf[*n] = tmp[i];
            *n += 1;
        }
    }
}

unsafe impl GlobalAlloc for Counting {
    unsafe fn alloc(&self, layout: Layout) -> *mut u8 {
        if !note_alloc(layout.size()) {
            refuse(layout.size());
            return std::ptr::null_mut();
        }
        System.alloc(layout)
    }
    unsafe fn alloc_zeroed(&self, layout: Layout) -> *mut u8 {
        if !note_alloc(layout.size()) {
            refuse(layout.size());
            return std::ptr::null_mut();
        }
        System.alloc_zeroed(layout)
    }
    unsafe fn dealloc(&self, ptr: *mut u8, layout: Layout) {
        let _ = LIVE.try_with(|l| l.set(l.get() - layout.size() as isize));
        System.dealloc(ptr, layout)
    }
    unsafe fn realloc(&self, ptr: *mut u8, layout: Layout, new_size: usize) -> *mut u8 {
        if new_size > layout.size() {
            let grow = new_size - layout.size();
            // account the whole new block as a request (that is what is asked of the allocator)
            if !note_alloc(new_size) {
                refuse(new_size);
                return std::ptr::null_mut();
            }
            // note_alloc added new_size to LIVE; correct to the growth only
            let _ = LIVE.try_with(|l| l.set(l.get() - new_size as isize + grow as isize));
        } else {
            let _ = LIVE.try_with(|l| l.set(l.get() - (layout.size() - new_size) as isize));
        }
        System.realloc(ptr, layout, new_size)
    }
}

/// Live bytes allocated (and not yet freed) by this thread. Frees performed by
/// this thread of blocks allocated by another thread would skew it; the
/// simulator never does that inside a measurement.
pub fn live() -> isize {
    LIVE.with(|l| l.get())
}

#[derive(Clone, Copy, Debug, Default)]
pub struct Window {
    pub requested: u64,
    pub max_req: u64,
    pub calls: u64,
}

/// Start a measurement window on this thread.
pub fn window_begin(tag: u64, single_cap: u64, window_cap: u64) {
    REQUESTED.with(|r| r.set(0));
    MAX_REQ.with(|r| r.set(0));
    CALLS.with(|r| r.set(0));
    TAG.with(|t| t.set(tag));
    CAP.with(|c| c.set(single_cap));
    WINDOW_CAP.with(|c| c.set(window_cap));
}

pub fn window_end() -> Window {
    CAP.with(|c| c.set(0));
    WINDOW_CAP.with(|c| c.set(0));
    Window { requested: REQUESTED.with(|r| r.get()), max_req: MAX_REQ.with(|r| r.get()), calls: CALLS.with(|r| r.get()) }
}
