// Oracles: judge the records of a case for one property.

use std::collections::{BTreeMap, HashSet};

use serde_json::{json, Value};

use crate::alloc;
use crate::case::{Case, Level, Violation};
use crate::eval::*;
use crate::units::World;

#[derive(Default)]
pub struct Stats {
    pub counters: BTreeMap<String, u64>,
    /// distinct outcome states: (leg, level, fault kind, outcome class, error kind, consumed bucket)
    pub states: HashSet<u64>,
    /// digests of distinct non-trivial cases
    pub cases: HashSet<u64>,
    /// distinct delivery schedules (digest of the explicit script)
    pub schedules: HashSet<u64>,
    pub samples: Vec<Value>,
    pub evaluations: u64,
}

impl Stats {
    pub fn bump(&mut self, k: &str) {
        *self.counters.entry(k.to_string()).or_insert(0) += 1;
    }
    pub fn add(&mut self, k: &str, n: u64) {
        if n > 0 {
            *self.counters.entry(k.to_string()).or_insert(0) += n;
        }
    }
    pub fn to_json(&self) -> Value {
        json!({
            "counters": self.counters,
            "evaluations": self.evaluations,
            "samples": self.samples,
        })
    }
}

fn bucket(n: usize) -> u64 {
    match n {
        0 => 0,
        1..=3 => 1,
        4..=15 => 2,
        16..=63 => 3,
        64..=255 => 4,
        256..=4095 => 5,
        _ => 6,
    }
}

fn level_key(l: &Level) -> String {
    match l {
        Level::Gen(n) => format!("gen:{}", n),
        other => other.class().to_string(),
    }
}

fn record(stats: &mut Stats, case: &Case, leg: &str, out: &LegOut) {
    stats.evaluations += 1;
    stats.bump(&format!("fault.{}", case.fault_kind));
    stats.bump(&format!("leg.{}.{}", leg, case.proto.name()));
    stats.bump(&format!("level.{}", case.level.class()));
    stats.bump(&format!("outcome.{}.{}", leg, out.res.class()));
    let st = crate::rng::mix(&[
        crate::rng::hash_str(leg),
        case.proto as u64,
        crate::rng::hash_str(&level_key(&case.level)),
        crate::rng::hash_str(&case.fault_kind),
        crate::rng::hash_str(out.res.class()),
        crate::rng::hash_str(&out.res.err_kind()),
        bucket(out.consumed),
    ]);
    stats.states.insert(st);
    if leg == "stream" {
        stats.add("sim.polls", out.polls);
        stats.add("sim.ticks", out.ticks);
        stats.add("stream.poll_read", out.stream.polls);
        stats.add("fired.short_read", out.stream.short_reads);
        stats.add("fired.pending", out.stream.pendings);
        stats.add("fired.deferred_wake", out.stream.deferred);
        stats.add("fired.eof", out.stream.eof_hits);
        stats.add("fired.io_error", out.stream.io_errors);
        stats.add("probe.pending_inside_read", out.stream.pending_inside_read);
        stats.add("probe.read_split_across_deliveries", out.stream.split_reads);
        stats.schedules.insert(case.sched.digest());
    }
    if leg == "simbuf" {
        stats.schedules.insert(case.sched.digest());
    }
    if let LegRes::Err { info, depth_limit, .. } = &out.res {
        stats.bump(&format!("errkind.{}", info.kind));
        if *depth_limit {
            stats.bump("probe.depth_limit_error");
        }
    }
    // a case is non-trivial when it exercises a fault or a real split / pending
    let nontrivial = case.fault_kind != "none" && case.fault_kind != "sched_whole";
    if nontrivial {
        stats.cases.insert(crate::rng::mix(&[case.digest(), crate::rng::hash_str(leg)]));
    }
}

fn sample(stats: &mut Stats, case: &Case, mem: Option<&LegOut>, st: Option<&LegOut>) {
    if stats.samples.len() >= 6 {
        return;
    }
    // sample sparsely: first case of a few units
    if case.idx != 0 && !(case.idx == 7 && stats.samples.len() < 3) {
        return;
    }
    let mut bytes = crate::case::hex(&case.bytes);
    if bytes.len() > 96 {
        bytes.truncate(96);
        bytes.push_str("..");
    }
    let mut sch = crate::case::sched_to_json(&case.sched);
    if let Some(e) = sch.get_mut("events") {
        if let Some(s) = e.as_str() {
            if s.len() > 80 {
                *e = json!(format!("{}..", &s[..80]));
            }
        }
    }
    stats.samples.push(json!({
        "unit": case.unit, "idx": case.idx, "proto": case.proto.name(), "level": case.level.name(),
        "value": case.note, "fault": case.fault, "fault_kind": case.fault_kind, "bytes_hex": bytes, "len": case.bytes.len(),
        "schedule": sch,
        "mem_outcome": mem.map(|m| m.res.class()), "stream_outcome": st.map(|s| s.res.class()),
        "stream_polls": st.map(|s| s.polls),
    }));
}

fn viol(case: &Case, class: &str, site: String, detail: String) -> Violation {
    Violation { prop: case.prop.clone(), class: class.to_string(), site, detail, case: case.clone() }
}

fn err_site(info: &crate::legs::ErrInfo) -> String {
    // error kind plus the innermost cause (text after the last "caused by: ")
    let tail = info.msg.rsplit("caused by: ").next().unwrap_or("");
    let tail: String = tail.chars().filter(|c| !c.is_ascii_digit()).take(60).collect();
    format!("{}:{}", info.kind, tail.trim())
}

pub struct Judge<'w> {
    pub w: &'w World,
    pub stats: Stats,
    /// cached in-memory outcome of the previous case when the bytes are the same (C12)
    mem_cache: Option<(u64, bool, LegOut)>,
    /// C19: the previous failing input per (level, protocol, leg) within the current unit, for the
    /// retention oracle (unit-local, so that what is explored does not depend on the worker count)
    prev_failing: std::collections::BTreeMap<String, Vec<u8>>,
    prev_unit: u64,
}

impl<'w> Judge<'w> {
    pub fn new(w: &'w World) -> Self {
        Judge { w, stats: Stats::default(), mem_cache: None, prev_failing: Default::default(), prev_unit: u64::MAX }
    }

    pub fn run(&mut self, case: &Case) -> Vec<Violation> {
        match case.prop.as_str() {
            "C12" => self.c12(case),
            "C07" => self.c07(case),
            "C09" => self.c09(case),
            "C19" => self.c19(case),
            "C10" => self.c10(case),
            _ => vec![],
        }
    }

    // ---------------------------------------------------------------- C12

    fn c12(&mut self, case: &Case) -> Vec<Violation> {
        let tag = case.unit << 20 | case.idx;
        let key = crate::rng::mix(&[case.input_digest(), case.valid_len.map(|x| x as u64 + 1).unwrap_or(0)]);
        let reuse = matches!(&self.mem_cache, Some((k, _, _)) if *k == key);
        if !reuse {
            let m = run_mem(case, &self.w.gens, Self::loose_caps(case), tag);
            record(&mut self.stats, case, "mem", &m);
            self.mem_cache = Some((key, true, m));
        }
        let st = run_stream(case, &self.w.gens, Self::loose_caps(case), tag);
        record(&mut self.stats, case, "stream", &st);
        let mem = &self.mem_cache.as_ref().unwrap().2;
        let mut v = vec![];
        let mut stats = std::mem::take(&mut self.stats);
        sample(&mut stats, case, Some(mem), Some(&st));
        'judge: {
            match (&mem.res, &st.res) {
                (LegRes::Panic { .. }, _) => {
                    stats.bump("skipped.mem_panic");
                    break 'judge;
                }
                (_, LegRes::Panic { .. }) => {
                    stats.bump("skipped.async_panic");
                    break 'judge;
                }
                (LegRes::Err { harness: true, .. }, _) | (_, LegRes::Err { harness: true, .. }) => {
                    stats.bump("skipped.harness_limit");
                    break 'judge;
                }
                (_, LegRes::Hang { polls }) => {
                    v.push(viol(case, "hang", case.level.class().into(), format!("stream leg still pending after {} polls (budget {})", polls, poll_budget(case.bytes.len(), case.sched.pending_events()))));
                }
                (_, LegRes::LostWake { polls }) => {
                    v.push(viol(case, "lost_wake", case.level.class().into(), format!("Pending returned without a wake-up after {} polls", polls)));
                }
                (LegRes::Ok(a), LegRes::Ok(b)) => {
                    stats.bump("c12.both_ok");
                    if !a.same(a) {
                        // a NaN inside a generated type: its PartialEq is not reflexive, equality says nothing
                        stats.bump("skipped.nan_in_value");
                    } else if !a.same(b) {
                        v.push(viol(case, "value_mismatch", level_key(&case.level), "stream and memory decoded different values from the same bytes".into()));
                    }
                    // the reference for "the message it decodes" is what the in-memory decoder
                    // consumed for the same value (whether that equals the model's length is C01's question)
                    let msg_end = mem.consumed;
                    if case.valid_len.is_some() && case.valid_len != Some(mem.consumed) {
                        stats.bump("info.mem_consumed_differs_from_model_length");
                    }
                    if st.consumed != msg_end {
                        let class = if st.consumed > msg_end { "overread" } else { "underread" };
                        v.push(viol(case, class, level_key(&case.level), format!("stream pulled {} bytes for a message of {} bytes", st.consumed, msg_end)));
                    }
                    match (&mem.next, &st.next) {
                        (Some(x), Some(y)) => {
                            let differ = match (x, y) {
                                (Ok(a), Ok(b)) => a != b,
                                (Err(_), Err(_)) => false,
                                _ => true,
                            };
                            if differ {
                                v.push(viol(case, "next_mismatch", level_key(&case.level), format!("value after the message differs: memory {:?} / stream {:?}", brief_next(x), brief_next(y))));
                            } else if !matches!(x, Ok(t) if *t == trailer_tv()) {
                                stats.bump("info.next_not_trailer_on_both_legs");
                            } else {
                                stats.bump("probe.second_message_on_same_protocol");
                            }
                        }
                        (None, None) => {}
                        _ => v.push(viol(case, "next_mismatch", level_key(&case.level), "only one leg read the following value".into())),
                    }
                }
                (LegRes::Ok(_), LegRes::Err { info, .. }) => {
                    v.push(viol(case, "mem_ok_async_err", err_site(info), format!("memory decoded a value, stream failed: {} {}", info.kind, info.msg)));
                }
                (LegRes::Err { info, .. }, LegRes::Ok(_)) => {
                    v.push(viol(case, "mem_err_async_ok", err_site(info), format!("memory failed ({} {}), stream decoded a value", info.kind, info.msg)));
                }
                (LegRes::Err { .. }, LegRes::Err { .. }) => {
                    stats.bump("c12.both_err");
                }
                (LegRes::Hang { .. }, _) | (LegRes::LostWake { .. }, _) => {}
            }
        }
        // keep_unknown_fields copies: the emitted decode_async never retains unknown
        // fields while the emitted decode does. Attribute a disagreement to that
        // (one specific, recorded finding) only if the input really carries unknown
        // fields AND the plain twin type agrees between its two legs on these bytes.
        if let Level::Gen(name) = &case.level {
            let (callp, bare) = match name.strip_prefix("call::") {
                Some(b) => ("call::", b),
                None => ("", name.as_str()),
            };
            if let Some(plain) = bare.strip_prefix("keep::") {
                let plain_level = format!("{}{}", callp, plain);
                let plain_level = plain_level.as_str();
                let reclass = v.iter().any(|x| matches!(x.class.as_str(), "value_mismatch" | "mem_ok_async_err" | "mem_err_async_ok"));
                // unknown fields present: either the retained list of the decoded value is
                // non-empty, or an independent parse of the input finds undeclared fields
                let retained = match &mem.res {
                    LegRes::Ok(val) => {
                        let d = val.debug();
                        d.contains("LinkedBytes { list: [b") || d.contains("_UnknownFields(")
                    }
                    _ => false,
                };
                if reclass && (retained || self.input_has_unknown_fields(case, plain)) && self.plain_twin_agrees(case, plain_level) {
                    for x in v.iter_mut() {
                        if matches!(x.class.as_str(), "value_mismatch" | "mem_ok_async_err" | "mem_err_async_ok") {
                            x.detail = format!("[{}] {}", x.class, x.detail);
                            x.class = "keep_async_drops_unknown_fields".into();
                            x.site = "keep_unknown_fields: decode retains unknown fields, decode_async does not".into();
                        }
                    }
                }
            }
        }
        self.stats = stats;
        v
    }

    /// Walk the input the way an emitted decoder does (known ids are read by their
    /// declared type, everything else is skipped) and report whether it meets a
    /// field the declared type does not know or whose wire type differs.
    fn input_has_unknown_fields(&self, case: &Case, plain: &str) -> bool {
        let Some(def) = self.w.schema.get(plain) else { return false };
        let mut buf = bytes::Bytes::from(case.bytes.clone());
        let mut found = false;
        let sc = &self.w.schema;
        let _ = std::panic::catch_unwind(std::panic::AssertUnwindSafe(|| {
            let is_call = matches!(&case.level, Level::Gen(n) if n.starts_with("call::"));
            crate::with_mem_proto!(case.proto, &mut buf, |p| {
                use pilota::thrift::TInputProtocol;
                // the service-call flow starts with the message envelope
                if !is_call || p.read_message_begin().is_ok() {
                    let _ = walk_declared(sc, &mut p, &crate::corpus_def::Ty::Struct(def.name), &mut found, 0, &mut vec![], false);
                }
            })
        }));
        found
    }

    /// Where in the declared type did a failed in-memory decode of a generated type stop?
    /// The input is walked with the same protocol reader the way an emitted decoder reads it;
    /// when the walk fails, the declared list elements it was inside are known. The emitted
    /// list decode leaks exactly the elements before the failing one, so "inside element k >= 1
    /// of a declared list" is what identifies that finding; the error chain alone cannot say it
    /// (unions add no context to the chain, and a chain through a list field says nothing about k).
    fn list_element_marker(&self, case: &Case, chain: &str) -> String {
        let Level::Gen(name) = &case.level else { return String::new() };
        let (is_call, bare) = match name.strip_prefix("call::") {
            Some(b) => (true, b),
            None => (false, name.as_str()),
        };
        let plain = bare.strip_prefix("keep::").unwrap_or(bare);
        let keep = bare.starts_with("keep::");
        let Some(def) = self.w.schema.get(plain) else { return String::new() };
        let mut buf = bytes::Bytes::from(case.bytes.clone());
        let mut found = false;
        let mut lists: Vec<(String, usize)> = vec![];
        let mut walk_failed = false;
        let sc = &self.w.schema;
        let _ = std::panic::catch_unwind(std::panic::AssertUnwindSafe(|| {
            crate::with_mem_proto!(case.proto, &mut buf, |p| {
                use pilota::thrift::TInputProtocol;
                if !is_call || p.read_message_begin().is_ok() {
                    walk_failed = walk_declared(sc, &mut p, &crate::corpus_def::Ty::Struct(def.name), &mut found, 0, &mut lists, keep).is_err();
                }
            })
        }));
        if std::env::var("VERIF_DEBUG_WALK").is_ok() {
            let _ = std::fs::write("/tmp/walk.log", format!("walk: failed={} lists={:?} remaining={}\n", walk_failed, lists, buf.len()));
        }
        if walk_failed {
            match lists.iter().find(|(_, i)| *i >= 1) {
                Some((t, _)) => format!(" ~list-element>=1 of {}", t),
                None => " ~not-past-a-list-element".into(),
            }
        } else if decode_path(self.w, &case.level, chain).contains("list<") {
            // the bytes are well-formed for the declared type and the decoder rejected them for their
            // content (a missing required field, two union fields): only the chain can place that
            " ~list-on-error-chain".into()
        } else {
            String::new()
        }
    }

    fn plain_twin_agrees(&self, case: &Case, plain: &str) -> bool {
        let mut c = case.clone();
        c.level = Level::Gen(plain.to_string());
        let m = run_mem(&c, &self.w.gens, AllocCaps::default(), 0);
        let s = run_stream(&c, &self.w.gens, AllocCaps::default(), 0);
        match (&m.res, &s.res) {
            (LegRes::Ok(a), LegRes::Ok(b)) => a.same(b) || !a.same(a),
            (LegRes::Err { .. }, LegRes::Err { .. }) => true,
            _ => false,
        }
    }

    // ---------------------------------------------------------------- C07

    fn c07(&mut self, case: &Case) -> Vec<Violation> {
        let tag = case.unit << 20 | case.idx;
        let mut v = vec![];
        let n = case.valid_len.unwrap_or(0);
        // a refused operation on another input just before this one, on the same thread with fresh readers:
        // whatever a skipper keeps outside the protocol object must not leak into the next skip
        if let Some(p) = &case.prior {
            let mut pc = case.clone();
            pc.bytes = p.clone();
            pc.prior = None;
            pc.valid_len = None;
            if case.run_mem {
                drop(run_mem(&pc, &self.w.gens, Self::loose_caps(&pc), tag));
            }
            if case.run_stream {
                drop(run_stream(&pc, &self.w.gens, Self::loose_caps(&pc), tag));
            }
            self.stats.bump("c07.prior_refused_operations");
        }
        // the value's own length: for field levels it is inside `expect`
        let mem = if case.run_mem { Some(run_mem(case, &self.w.gens, Self::loose_caps(case), tag)) } else { None };
        let st = if case.run_stream { Some(run_stream(case, &self.w.gens, Self::loose_caps(case), tag)) } else { None };
        if let Some(m) = &mem {
            record(&mut self.stats, case, "mem", m);
        }
        if let Some(s) = &st {
            record(&mut self.stats, case, "stream", s);
        }
        let mut stats = std::mem::take(&mut self.stats);
        sample(&mut stats, case, mem.as_ref(), st.as_ref());
        for (leg, o) in [("mem", mem.as_ref()), ("stream", st.as_ref())] {
            let Some(o) = o else { continue };
            let site = format!("{}/{}", leg, case.level.class());
            match &o.res {
                LegRes::Panic { site: ps, msg } => {
                    v.push(viol(case, "panic", format!("{}@{}", site, ps), msg.clone()));
                }
                LegRes::Hang { polls } => v.push(viol(case, "hang", site, format!("pending after {} polls", polls))),
                LegRes::LostWake { .. } => v.push(viol(case, "lost_wake", site, String::new())),
                LegRes::Err { info, depth_limit, harness } => {
                    if *harness {
                        stats.bump("skipped.harness_limit");
                        continue;
                    }
                    match case.expect_refused {
                        Some(true) => {
                            if *depth_limit {
                                stats.bump("probe.depth_refused_with_depth_limit");
                            } else {
                                v.push(viol(case, "depth_wrong_error", site, format!("nesting beyond the limit refused with {} {}", info.kind, info.msg)));
                            }
                        }
                        _ => v.push(viol(case, "skip_err_on_valid", format!("{}:{}", site, err_site(info)), format!("skip of a valid value failed: {} {}", info.kind, info.msg))),
                    }
                }
                LegRes::Ok(val) => {
                    if case.expect_refused == Some(true) {
                        v.push(viol(case, "depth_not_refused", site, format!("nesting {} skipped without a depth-limit error", case.note)));
                        continue;
                    }
                    if let Some(exp) = &case.expect {
                        let got = match val {
                            Val::Tv(t) => format!("{:?}", t),
                            _ => String::new(),
                        };
                        if &got != exp {
                            v.push(viol(case, "skip_field_mismatch", site.clone(), format!("after skipping the unknown field: got {} expected {}", clip(&got), clip(exp))));
                        } else {
                            stats.bump("probe.sibling_field_after_skipped_value_ok");
                        }
                        if let (Some(r), Val::Tv(crate::tval::TV::Struct(fs))) = (o.skip_ret, val) {
                            // the reported count must equal the bytes the skip advanced
                            if let Some((_, crate::tval::TV::I64(adv))) = fs.first() {
                                if case.level != Level::SkipUnchecked && r as i64 != *adv {
                                    v.push(viol(case, "skip_count", site.clone(), format!("skip reported {} but advanced {}", r, adv)));
                                }
                            }
                        }
                    } else if let Some(r) = o.skip_ret {
                        if r != n {
                            v.push(viol(case, "skip_count", site.clone(), format!("skip reported {} for a value of {} bytes", r, n)));
                        }
                    }
                    if o.consumed != n {
                        v.push(viol(case, "skip_advance", site.clone(), format!("skip consumed {} bytes of a value of {} bytes", o.consumed, n)));
                    }
                    if let Some(nx) = &o.next {
                        // what follows is the standard trailer, or (short-tail cases) a single STOP byte = an empty struct
                        let expected = if case.bytes.len() == n + 1 && case.bytes[n] == 0 { crate::tval::TV::Struct(vec![]) } else { trailer_tv() };
                        if !matches!(nx, Ok(t) if *t == expected) {
                            v.push(viol(case, "skip_next", site.clone(), format!("what follows the skipped value decoded as {}", brief_next(nx))));
                        } else {
                            stats.bump("probe.trailer_after_skip_ok");
                        }
                    }
                }
            }
        }
        self.stats = stats;
        v
    }

    // ---------------------------------------------------------------- C09

    /// Caps for the properties that do not judge allocation: they only keep a
    /// corrupt count from really allocating gigabytes (the worker dies, the case
    /// is counted as skipped and left to C09).
    pub fn loose_caps(case: &Case) -> AllocCaps {
        let b = Self::alloc_bound(case.bytes.len());
        AllocCaps { single: Self::single_request_cap(case.bytes.len()), window: 4 * b }
    }

    pub fn alloc_bound(input_len: usize) -> u64 {
        16 * 1024 * 1024 + 4096 * input_len as u64
    }

    /// A single request this large for this input is out of proportion on its own; refusing it
    /// at the request (rather than when the window total is crossed later by some small
    /// allocation) names the right call site.
    pub fn single_request_cap(input_len: usize) -> u64 {
        4 * 1024 * 1024 + 2048 * input_len as u64
    }

    fn c09(&mut self, case: &Case) -> Vec<Violation> {
        let tag = case.unit << 20 | case.idx;
        let bound = Self::alloc_bound(case.bytes.len());
        let caps = AllocCaps { single: Self::single_request_cap(case.bytes.len()), window: bound };
        let mut v = vec![];
        let (leg, o) = if case.run_mem { ("mem", run_mem(case, &self.w.gens, caps, tag)) } else { ("stream", run_stream(case, &self.w.gens, caps, tag)) };
        record(&mut self.stats, case, leg, &o);
        let mut stats = std::mem::take(&mut self.stats);
        sample(&mut stats, case, if leg == "mem" { Some(&o) } else { None }, if leg == "stream" { Some(&o) } else { None });
        let site = format!("{}/{}", leg, case.level.class());
        match &o.res {
            LegRes::Panic { site: ps, msg } => v.push(viol(case, "panic", format!("{}@{}", leg, ps), msg.clone())),
            LegRes::Hang { polls } => v.push(viol(case, "hang", site.clone(), format!("pending after {} polls", polls))),
            LegRes::LostWake { .. } => v.push(viol(case, "lost_wake", site.clone(), String::new())),
            LegRes::Ok(_) => {
                if case.strict_prefix {
                    v.push(viol(case, "prefix_accepted", format!("{}/{}", leg, level_key(&case.level)), format!("a strict prefix ({} bytes) of a valid struct encoding decoded successfully", case.bytes.len())));
                }
            }
            LegRes::Err { .. } => {
                if case.strict_prefix {
                    stats.bump("probe.strict_prefix_rejected");
                }
            }
        }
        if o.alloc.requested > bound {
            v.push(viol(case, "alloc_bound", site, format!("{} bytes requested for an input of {} bytes (bound {})", o.alloc.requested, case.bytes.len(), bound)));
        }
        if o.alloc.max_req > 1 << 20 {
            stats.bump("probe.single_request_over_1MiB");
        }
        self.stats = stats;
        v
    }

    // ---------------------------------------------------------------- C10

    fn c10(&mut self, case: &Case) -> Vec<Violation> {
        let tag = case.unit << 20 | case.idx;
        let bound = Self::alloc_bound(case.bytes.len());
        let caps = AllocCaps { single: Self::single_request_cap(case.bytes.len()), window: bound };
        let fragmented = case.run_stream;
        let leg = if fragmented { "simbuf" } else { "bytes" };
        let o = run_pb(case, fragmented, caps, tag);
        record(&mut self.stats, case, leg, &o);
        let mut stats = std::mem::take(&mut self.stats);
        sample(&mut stats, case, if fragmented { None } else { Some(&o) }, if fragmented { Some(&o) } else { None });
        stats.add("simbuf.chunk_calls", o.stream.polls);
        stats.add("probe.simbuf_short_chunk", o.stream.short_reads);
        let mut v = vec![];
        let site = format!("{}/{}", leg, case.level.name());
        match &o.res {
            LegRes::Panic { site: ps, msg } => v.push(viol(case, "panic", format!("{}@{}", leg, ps), msg.clone())),
            LegRes::Ok(_) => {
                if case.expect_refused == Some(true) {
                    v.push(viol(case, "depth_not_refused", site.clone(), format!("{} decoded without a recursion-limit error", case.note)));
                }
                if case.expect.as_deref() == Some("underflow") {
                    v.push(viol(case, "underflow_accepted", site.clone(), "a length prefix larger than the remaining input was accepted".into()));
                }
            }
            LegRes::Err { info, harness, .. } => {
                if *harness {
                    stats.bump("skipped.harness_limit");
                } else {
                    if case.expect_refused == Some(true) {
                        if info.kind == "pb:recursion_limit" {
                            stats.bump("probe.recursion_limit_error");
                        } else {
                            v.push(viol(case, "depth_wrong_error", site.clone(), format!("nesting beyond the limit failed with: {}", info.msg)));
                        }
                    }
                    if case.expect.as_deref() == Some("underflow") {
                        stats.bump("probe.underflow_rejected");
                        let copy_bound = 1024 + 2 * case.bytes.len() as u64;
                        if o.alloc.requested > copy_bound {
                            v.push(viol(case, "copied_before_reject", site.clone(), format!("{} bytes requested before the oversized length prefix was rejected (bound {})", o.alloc.requested, copy_bound)));
                        }
                    }
                }
            }
            LegRes::Hang { .. } | LegRes::LostWake { .. } => {}
        }
        if o.alloc.requested > bound {
            v.push(viol(case, "alloc_bound", site, format!("{} bytes requested for an input of {} bytes (bound {})", o.alloc.requested, case.bytes.len(), bound)));
        }
        self.stats = stats;
        v
    }

    // ---------------------------------------------------------------- C19

    fn c19_leg(&self, case: &Case, caps: AllocCaps, tag: u64) -> LegOut {
        if let Level::Pb(_) = &case.level {
            run_pb(case, case.run_stream, caps, tag)
        } else if case.run_mem {
            run_mem(case, &self.w.gens, caps, tag)
        } else {
            run_stream(case, &self.w.gens, caps, tag)
        }
    }

    fn c19(&mut self, case: &Case) -> Vec<Violation> {
        if case.unit != self.prev_unit {
            self.prev_failing.clear();
            self.prev_unit = case.unit;
        }
        let tag = case.unit << 20 | case.idx;
        let bound = Self::alloc_bound(case.bytes.len());
        let caps = AllocCaps { single: Self::single_request_cap(case.bytes.len()), window: 4 * bound };
        let mut v = vec![];
        let leg = match (&case.level, case.run_mem) {
            (Level::Pb(_), true) => "bytes",
            (Level::Pb(_), false) => "simbuf",
            (_, true) => "mem",
            _ => "stream",
        };
        // In replay / confirmation the case names the input that was decoded just before it.
        if let Some(p) = &case.prior {
            let mut pc = case.clone();
            pc.bytes = p.clone();
            pc.prior = None;
            let o = self.c19_leg(&pc, caps, tag);
            drop(o);
        }
        // Three measured repetitions. Nothing of the harness is allocated inside a measured window
        // (flags only); counters, samples and the error chain come from a fourth, unmeasured run.
        let mut deltas = [0isize; 3];
        let mut is_err = false;
        let mut unique = true;
        let mut panicked = false;
        for (i, d) in deltas.iter_mut().enumerate() {
            let before = alloc::live();
            {
                let o = self.c19_leg(case, caps, tag);
                if i == 0 {
                    is_err = matches!(o.res, LegRes::Err { .. });
                    panicked = matches!(o.res, LegRes::Panic { .. });
                    unique = o.input_unique;
                }
            }
            *d = alloc::live() - before;
            if !is_err {
                break;
            }
        }
        let mut chain = String::new();
        {
            let o = self.c19_leg(case, caps, tag);
            record(&mut self.stats, case, leg, &o);
            let mut stats = std::mem::take(&mut self.stats);
            sample(&mut stats, case, if leg == "mem" { Some(&o) } else { None }, if leg == "stream" { Some(&o) } else { None });
            self.stats = stats;
            if let LegRes::Err { info, .. } = &o.res {
                chain = info.msg.clone();
            }
        }
        if panicked {
            self.stats.bump("skipped.panic");
        }
        if is_err {
            self.stats.bump("c19.failed_decodes_measured");
            let key = format!("{}|{}|{}", level_key(&case.level), case.proto.name(), leg);
            let marker = if leg == "mem" && ((deltas[1] > 0 && deltas[2] > 0) || !unique) { self.list_element_marker(case, &chain) } else { String::new() };
            if deltas[1] > 0 && deltas[2] > 0 {
                let site = format!("{}/{}/{}{}", leg, level_key(&case.level), decode_path(self.w, &case.level, &chain), marker);
                v.push(viol(case, "leak", site, format!("{} live bytes remain after each failed decode (repetitions: {:?})", deltas[2], deltas)));
            } else if deltas[0] > 0 {
                // Growth on the first decode of this input only: one-time initialisation, or something
                // kept from the decoded data (a free list, a cache) that the next decode of the same
                // input merely replaces. The two differ in whether it happens again: decode the previous
                // failing input of this kind, then this one, twice over; initialisation cannot repeat.
                // (not counted: whether a first decode meets one-time initialisation depends on what the
                // process ran before, i.e. on the worker count)
                let key = format!("{}|{}|{}", level_key(&case.level), case.proto.name(), leg);
                let prior = case.prior.clone().or_else(|| self.prev_failing.get(&key).cloned());
                if let Some(p) = prior {
                    if p != case.bytes {
                        let mut pc = case.clone();
                        pc.bytes = p.clone();
                        pc.prior = None;
                        let mut again = [0isize; 2];
                        for a in again.iter_mut() {
                            drop(self.c19_leg(&pc, caps, tag));
                            let before = alloc::live();
                            drop(self.c19_leg(case, caps, tag));
                            *a = alloc::live() - before;
                        }
                        if again[0] > 0 && again[1] > 0 {
                            let site = format!("{}/{}/{}", leg, level_key(&case.level), decode_path(self.w, &case.level, &chain));
                            let mut vc = case.clone();
                            vc.prior = Some(p);
                            v.push(viol(&vc, "retained_after_drop", site, format!("{} bytes more are live after this failed decode was dropped than after the previous input's, every time the pair is repeated ({:?}): something of the decoded data is kept", again[1], again)));
                        }
                    }
                }
            }
            // slow accumulation: state that grows only now and then (a shared scratch vector that
            // doubles, a cache) is invisible to three repetitions. Every 32nd failing case is
            // repeated in a burst; any growth of live bytes across the burst is a leak (one-time
            // initialisation has already happened during the three repetitions above).
            if case.idx % 32 == 0 && !(deltas[1] > 0 && deltas[2] > 0) {
                // 1500 repetitions for ordinary inputs, fewer for very long ones (the cost is per byte)
                let reps = (6_000_000 / (case.bytes.len() + 1)).clamp(60, 1500);
                let before = alloc::live();
                for _ in 0..reps {
                    let o = self.c19_leg(case, caps, tag);
                    drop(o);
                }
                let growth = alloc::live() - before;
                self.stats.bump("c19.bursts");
                if growth > 0 {
                    let site = format!("{}/{}/{}", leg, level_key(&case.level), decode_path(self.w, &case.level, &chain));
                    v.push(viol(case, "leak_accumulating", site, format!("{} live bytes accumulated over {} repetitions of the same failed decode (no growth in the first three)", growth, reps)));
                }
            }
            if !unique {
                let site = format!("{}/{}/{}{}", leg, level_key(&case.level), decode_path(self.w, &case.level, &chain), marker);
                v.push(viol(case, "input_retained", site, "the input buffer is still shared after the error was dropped".into()));
            }
            // Two failed decodes whose results are alive at the same time (an error kept for logging while
            // the next message is refused), then both dropped: every eighth failing case, three rounds.
            if case.idx % 8 == 0 && !(deltas[1] > 0 && deltas[2] > 0) {
                let mut rounds = [0isize; 3];
                for d in rounds.iter_mut() {
                    let before = alloc::live();
                    crate::eval::hold_errors(true);
                    {
                        let o1 = self.c19_leg(case, caps, tag);
                        let o2 = self.c19_leg(case, caps, tag);
                        drop(o1);
                        drop(o2);
                    }
                    crate::eval::hold_errors(false);
                    *d = alloc::live() - before;
                }
                self.stats.bump("c19.overlap_probes");
                if rounds[1] > 0 && rounds[2] > 0 {
                    let site = format!("{}/{}/{}", leg, level_key(&case.level), decode_path(self.w, &case.level, &chain));
                    v.push(viol(case, "leak_overlapping", site, format!("{} live bytes remain each time two results of this failed decode were alive together and then dropped (rounds: {:?}); one at a time nothing remains", rounds[2], rounds)));
                }
            }
            if case.prior.is_none() {
                self.prev_failing.insert(key, case.bytes.clone());
            }
        }
        v
    }
}

fn clip(s: &str) -> String {
    if s.len() > 200 {
        format!("{}..", &s[..200])
    } else {
        s.to_string()
    }
}

fn brief_next(x: &Result<crate::tval::TV, crate::legs::ErrInfo>) -> String {
    match x {
        Ok(t) => {
            let mut b = 12;
            format!("Ok({})", t.brief(&mut b))
        }
        Err(e) => format!("Err({} {})", e.kind, clip(&e.msg)),
    }
}

/// Turn the error chain of a generated decoder ("decode struct `A` field(#3)
/// failed, caused by: decode struct `B` field(#1) failed, ...") into the path
/// of declared field types, e.g. `Outer.7:Containers>Containers.10:list<Leaf>`.
pub fn decode_path(w: &World, level: &Level, msg: &str) -> String {
    let _ = level;
    let mut parts = vec![];
    let mut rest = msg;
    while let Some(i) = rest.find("decode struct `") {
        rest = &rest[i + 15..];
        let Some(j) = rest.find('`') else { break };
        let name = &rest[..j];
        rest = &rest[j..];
        let Some(k) = rest.find("field(#") else { break };
        let r2 = &rest[k + 7..];
        let Some(e) = r2.find(')') else { break };
        let id: i32 = r2[..e].parse().unwrap_or(-1);
        rest = &r2[e..];
        let ty = w
            .schema
            .get(name)
            .and_then(|d| d.fields.iter().find(|f| f.id as i32 == id))
            .map(|f| ty_name(&f.ty))
            .unwrap_or_else(|| "?".into());
        parts.push(format!("{}.{}:{}", name, id, ty));
    }
    if parts.is_empty() {
        "top".into()
    } else {
        parts.join(">")
    }
}

fn ty_name(t: &crate::corpus_def::Ty) -> String {
    use crate::corpus_def::Ty;
    match t {
        Ty::Bool => "bool".into(),
        Ty::I8 => "i8".into(),
        Ty::I16 => "i16".into(),
        Ty::I32 => "i32".into(),
        Ty::I64 => "i64".into(),
        Ty::Double => "double".into(),
        Ty::String => "string".into(),
        Ty::Binary => "binary".into(),
        Ty::Uuid => "uuid".into(),
        Ty::List(e) => format!("list<{}>", ty_name(e)),
        Ty::Set(e) => format!("set<{}>", ty_name(e)),
        Ty::Map(k, v) => format!("map<{},{}>", ty_name(k), ty_name(v)),
        Ty::Struct(n) | Ty::Enum(n) => n.to_string(),
        Ty::Alias(n, inner) => format!("{}={}", n, ty_name(inner)),
    }
}

/// Does the wire value carry a field the declared type does not know (or whose
/// wire type differs from the declared one), at any nesting level?
pub fn has_unknown(sc: &crate::tval::Schema, v: &crate::tval::TV, t: &crate::corpus_def::Ty) -> bool {
    use crate::corpus_def::Ty;
    use crate::tval::TV;
    if let Ty::Alias(_, inner) = t {
        return has_unknown(sc, v, inner);
    }
    match (v, t) {
        (TV::Struct(fs), Ty::Struct(n)) => {
            let Some(def) = sc.get(n) else { return false };
            fs.iter().any(|(id, fv)| match def.fields.iter().find(|f| f.id == *id) {
                None => true,
                Some(f) => crate::tval::wire_type(&f.ty) != fv.ttype() || has_unknown(sc, fv, &f.ty),
            })
        }
        (TV::List(_, xs), Ty::List(e)) | (TV::Set(_, xs), Ty::Set(e)) => xs.iter().any(|x| has_unknown(sc, x, e)),
        (TV::Map(_, _, kv), Ty::Map(k, vt)) => kv.iter().any(|(a, b)| has_unknown(sc, a, k) || has_unknown(sc, b, vt)),
        _ => false,
    }
}

fn walk_declared<P: pilota::thrift::TInputProtocol>(
    sc: &crate::tval::Schema,
    p: &mut P,
    t: &crate::corpus_def::Ty,
    found: &mut bool,
    depth: usize,
    lists: &mut Vec<(String, usize)>,
    keep: bool,
) -> Result<(), pilota::thrift::ThriftException> {
    use crate::corpus_def::{Kind, Ty};
    use pilota::thrift::TType;
    if depth > 600 {
        return Err(pilota::thrift::new_protocol_exception(pilota::thrift::ProtocolExceptionKind::Unknown, "harness:walk-depth"));
    }
    match t {
        Ty::Alias(_, inner) => walk_declared(sc, p, inner, found, depth, lists, keep),
        Ty::Bool => p.read_bool().map(|_| ()),
        Ty::I8 => p.read_i8().map(|_| ()),
        Ty::I16 => p.read_i16().map(|_| ()),
        Ty::I32 | Ty::Enum(_) => p.read_i32().map(|_| ()),
        Ty::I64 => p.read_i64().map(|_| ()),
        Ty::Double => p.read_double().map(|_| ()),
        Ty::String | Ty::Binary => p.read_bytes().map(|_| ()),
        Ty::Uuid => p.read_uuid().map(|_| ()),
        Ty::List(e) => {
            let id = p.read_list_begin()?;
            // which declared list element the walk is in: left on the stack when the walk fails
            for i in 0..id.size {
                lists.push((ty_name(t), i));
                walk_declared(sc, p, e, found, depth + 1, lists, keep)?;
                lists.pop();
            }
            p.read_list_end()
        }
        Ty::Set(e) => {
            let id = p.read_set_begin()?;
            for _ in 0..id.size {
                walk_declared(sc, p, e, found, depth + 1, lists, keep)?;
            }
            p.read_set_end()
        }
        Ty::Map(k, v) => {
            let id = p.read_map_begin()?;
            for _ in 0..id.size {
                walk_declared(sc, p, k, found, depth + 1, lists, keep)?;
                walk_declared(sc, p, v, found, depth + 1, lists, keep)?;
            }
            p.read_map_end()
        }
        Ty::Struct(n) => {
            let Some(def) = sc.get(n) else { return Ok(()) };
            let refuse = |m: &'static str| pilota::thrift::new_protocol_exception(pilota::thrift::ProtocolExceptionKind::InvalidData, m);
            p.read_struct_begin()?;
            // what the emitted decoders refuse for its content: a second known field of a union, an
            // empty union, a required field that never arrived
            let mut known_seen = 0usize;
            let mut seen: Vec<i16> = vec![];
            loop {
                let f = p.read_field_begin()?;
                if f.field_type == TType::Stop {
                    break;
                }
                let decl = def.fields.iter().find(|d| Some(d.id) == f.id);
                match decl {
                    Some(d) if def.kind == Kind::Union || crate::tval::wire_type(&d.ty) == f.field_type as u8 => {
                        known_seen += 1;
                        if def.kind == Kind::Union && known_seen > 1 {
                            return Err(refuse("harness:walk second union field"));
                        }
                        seen.push(d.id);
                        walk_declared(sc, p, &d.ty, found, depth + 1, lists, keep)?;
                    }
                    _ => {
                        *found = true;
                        p.skip(f.field_type)?;
                        // with keep_unknown_fields a union retains an unknown field as its value
                        // (declared unions only: the synthesized service result / exception enums skip it)
                        if keep && def.kind == Kind::Union && !def.name.starts_with("Svc") {
                            known_seen += 1;
                            if known_seen > 1 {
                                return Err(refuse("harness:walk second union field"));
                            }
                        }
                    }
                }
                p.read_field_end()?;
            }
            p.read_struct_end()?;
            if def.kind == Kind::Union && known_seen == 0 {
                return Err(refuse("harness:walk empty union"));
            }
            if def.kind != Kind::Union && def.fields.iter().any(|d| d.req == crate::corpus_def::Req::Required && d.default.is_none() && !seen.contains(&d.id)) {
                return Err(refuse("harness:walk required field missing"));
            }
            Ok(())
        }
    }
}
