// Ordered Thrift value trees (the model's view of a value) and their generators.

use crate::corpus_def::{Kind, Req, StructDef, Ty};
use crate::rng::Rng;

// Thrift wire type codes (binary protocol numbering).
pub const T_STOP: u8 = 0;
pub const T_BOOL: u8 = 2;
pub const T_I8: u8 = 3;
pub const T_DOUBLE: u8 = 4;
pub const T_I16: u8 = 6;
pub const T_I32: u8 = 8;
pub const T_I64: u8 = 10;
pub const T_BINARY: u8 = 11;
pub const T_STRUCT: u8 = 12;
pub const T_MAP: u8 = 13;
pub const T_SET: u8 = 14;
pub const T_LIST: u8 = 15;
pub const T_UUID: u8 = 16;

pub const ALL_TYPES: [u8; 13] =
    [T_BOOL, T_I8, T_DOUBLE, T_I16, T_I32, T_I64, T_BINARY, T_STRUCT, T_MAP, T_SET, T_LIST, T_UUID, T_BOOL];

#[derive(Clone, Debug, PartialEq)]
pub enum TV {
    Bool(bool),
    I8(i8),
    I16(i16),
    I32(i32),
    I64(i64),
    /// bit pattern, so that equality is exact (NaN payloads included)
    Double(u64),
    Binary(Vec<u8>),
    Uuid([u8; 16]),
    Struct(Vec<(i16, TV)>),
    List(u8, Vec<TV>),
    Set(u8, Vec<TV>),
    Map(u8, u8, Vec<(TV, TV)>),
}

impl TV {
    pub fn ttype(&self) -> u8 {
        match self {
            TV::Bool(_) => T_BOOL,
            TV::I8(_) => T_I8,
            TV::I16(_) => T_I16,
            TV::I32(_) => T_I32,
            TV::I64(_) => T_I64,
            TV::Double(_) => T_DOUBLE,
            TV::Binary(_) => T_BINARY,
            TV::Uuid(_) => T_UUID,
            TV::Struct(_) => T_STRUCT,
            TV::List(..) => T_LIST,
            TV::Set(..) => T_SET,
            TV::Map(..) => T_MAP,
        }
    }

    /// nesting depth: scalars 1
    pub fn depth(&self) -> usize {
        match self {
            TV::Struct(fs) => 1 + fs.iter().map(|(_, v)| v.depth()).max().unwrap_or(0),
            TV::List(_, xs) | TV::Set(_, xs) => 1 + xs.iter().map(|v| v.depth()).max().unwrap_or(0),
            TV::Map(_, _, kv) => 1 + kv.iter().map(|(k, v)| k.depth().max(v.depth())).max().unwrap_or(0),
            _ => 1,
        }
    }

    /// nesting depth of containers only: scalars 0 (an empty container 1)
    pub fn cdepth(&self) -> usize {
        match self {
            TV::Struct(fs) => 1 + fs.iter().map(|(_, v)| v.cdepth()).max().unwrap_or(0),
            TV::List(_, xs) | TV::Set(_, xs) => 1 + xs.iter().map(|v| v.cdepth()).max().unwrap_or(0),
            TV::Map(_, _, kv) => 1 + kv.iter().map(|(k, v)| k.cdepth().max(v.cdepth())).max().unwrap_or(0),
            _ => 0,
        }
    }

    pub fn node_count(&self) -> usize {
        match self {
            TV::Struct(fs) => 1 + fs.iter().map(|(_, v)| v.node_count()).sum::<usize>(),
            TV::List(_, xs) | TV::Set(_, xs) => 1 + xs.iter().map(|v| v.node_count()).sum::<usize>(),
            TV::Map(_, _, kv) => 1 + kv.iter().map(|(k, v)| k.node_count() + v.node_count()).sum::<usize>(),
            _ => 1,
        }
    }

    /// compact rendering for evidence samples
    pub fn brief(&self, budget: &mut usize) -> String {
        if *budget == 0 {
            return "..".into();
        }
        *budget -= 1;
        match self {
            TV::Bool(b) => format!("{}", b),
            TV::I8(x) => format!("{}i8", x),
            TV::I16(x) => format!("{}i16", x),
            TV::I32(x) => format!("{}i32", x),
            TV::I64(x) => format!("{}i64", x),
            TV::Double(x) => format!("f64:{:#x}", x),
            TV::Binary(b) => format!("bin[{}]", b.len()),
            TV::Uuid(_) => "uuid".into(),
            TV::Struct(fs) => {
                let mut s = String::from("{");
                for (i, (id, v)) in fs.iter().enumerate() {
                    if i > 0 {
                        s.push(',');
                    }
                    if *budget == 0 {
                        s.push_str("..");
                        break;
                    }
                    s.push_str(&format!("{}:{}", id, v.brief(budget)));
                }
                s.push('}');
                s
            }
            TV::List(t, xs) | TV::Set(t, xs) => {
                let mut s = format!("{}<{}>[{}:", if matches!(self, TV::List(..)) { "list" } else { "set" }, t, xs.len());
                for (i, v) in xs.iter().enumerate() {
                    if i > 0 {
                        s.push(',');
                    }
                    if *budget == 0 || i >= 3 {
                        s.push_str("..");
                        break;
                    }
                    s.push_str(&v.brief(budget));
                }
                s.push(']');
                s
            }
            TV::Map(k, v, kv) => format!("map<{},{}>[{}]", k, v, kv.len()),
        }
    }
}

// ---------------------------------------------------------------- generators

#[derive(Clone, Debug)]
pub struct Knobs {
    /// maximum nesting depth of generated values
    pub max_depth: usize,
    /// rough cap on the number of nodes
    pub max_nodes: usize,
    /// maximum container length drawn in the common case
    pub max_len: usize,
    /// maximum string / binary length in the common case
    pub max_str: usize,
    /// probability (per 100) of drawing a boundary-class size instead
    pub boundary_pct: u64,
    /// now and then a container of more than 65536 one-byte elements
    pub huge: bool,
}

impl Knobs {
    pub fn small() -> Self {
        Knobs { max_depth: 4, max_nodes: 40, max_len: 4, max_str: 12, boundary_pct: 5, huge: false }
    }
    pub fn swarm(r: &mut Rng) -> Self {
        Knobs {
            max_depth: *r.pick(&[2usize, 3, 4, 6, 8, 8, 14, 20]),
            max_nodes: *r.pick(&[8usize, 20, 40, 80, 200]),
            max_len: *r.pick(&[1usize, 2, 4, 8, 17]),
            max_str: *r.pick(&[0usize, 3, 12, 40, 130]),
            boundary_pct: *r.pick(&[0u64, 5, 20]),
            huge: false,
        }
    }
}

const STR_BOUNDARY: [usize; 8] = [0, 1, 14, 15, 16, 127, 128, 300];
const LEN_BOUNDARY: [usize; 6] = [0, 1, 14, 15, 16, 40];

fn gen_i64_class(r: &mut Rng, bits: u32) -> i64 {
    let max: i64 = if bits == 64 { i64::MAX } else { (1i64 << (bits - 1)) - 1 };
    let min: i64 = if bits == 64 { i64::MIN } else { -(1i64 << (bits - 1)) };
    match r.below(10) {
        0 => 0,
        1 => 1,
        2 => -1,
        3 => max,
        4 => min,
        5 => {
            // varint length steps: +-2^(7k) +- 1
            let k = r.range(1, ((bits - 1) / 7).max(1) as u64) as u32;
            let base = 1i64.checked_shl(7 * k).unwrap_or(max);
            let v = base.wrapping_add(r.range(0, 2) as i64 - 1);
            let v = if r.chance(1, 2) { v } else { v.wrapping_neg() };
            v.clamp(min, max)
        }
        _ => {
            let x = r.next() as i64;
            if bits == 64 {
                x
            } else {
                // sign-extend from `bits`
                let sh = 64 - bits;
                (x << sh) >> sh
            }
        }
    }
}

fn gen_len(r: &mut Rng, k: &Knobs, boundary: &[usize], max: usize) -> usize {
    if r.below(100) < k.boundary_pct {
        *r.pick(boundary)
    } else {
        r.below(max as u64 + 1) as usize
    }
}

fn gen_str(r: &mut Rng, k: &Knobs, utf8: bool) -> Vec<u8> {
    // rarely: lengths around the async readers' 4 KiB pre-allocation threshold
    let n = if k.boundary_pct > 0 && r.chance(1, 100) { *r.pick(&[255usize, 256, 1023, 1024, 1025, 2049, 4095, 4096, 4097, 8200]) } else { gen_len(r, k, &STR_BOUNDARY, k.max_str) };
    if utf8 {
        // valid UTF-8 for the `String`-typed fields: ASCII, or (one string in three) characters of
        // two, three and four bytes throughout, so that any byte offset is likely to fall inside one
        if r.chance(1, 3) {
            multibyte_text(r, n)
        } else {
            (0..n).map(|_| b'a' + (r.below(26) as u8)).collect()
        }
    } else {
        r.bytes(n)
    }
}

/// `n` bytes of valid UTF-8 made of characters of one to four bytes in no particular pattern.
pub fn multibyte_text(r: &mut Rng, n: usize) -> Vec<u8> {
    const CHARS: [&str; 6] = ["\u{e9}", "\u{4e2d}", "\u{1f600}", "\u{3b1}", "\u{20ac}", "x"];
    let mut out: Vec<u8> = Vec::with_capacity(n);
    while out.len() < n {
        let c = CHARS[r.below(CHARS.len() as u64) as usize].as_bytes();
        if out.len() + c.len() <= n {
            out.extend_from_slice(c);
        } else {
            out.push(b'a' + (r.below(26) as u8));
        }
    }
    out
}

fn gen_double(r: &mut Rng) -> u64 {
    match r.below(8) {
        0 => 0f64.to_bits(),
        1 => (-0f64).to_bits(),
        2 => f64::INFINITY.to_bits(),
        // NaN only rarely: generated types compare with `==`, under which a value holding NaN says nothing
        3 if r.chance(1, 6) => f64::NAN.to_bits(),
        3 => (-1e300f64).to_bits(),
        4 => 1.5f64.to_bits(),
        5 => f64::MIN_POSITIVE.to_bits(),
        _ => r.next(),
    }
}

pub struct GenCtx<'a> {
    pub r: &'a mut Rng,
    pub k: Knobs,
    pub nodes: usize,
}

impl<'a> GenCtx<'a> {
    pub fn new(r: &'a mut Rng, k: Knobs) -> Self {
        GenCtx { r, k, nodes: 0 }
    }

    fn exhausted(&self) -> bool {
        self.nodes >= self.k.max_nodes
    }

    /// A value of an arbitrary shape with wire type `t` (schema-less): used at
    /// the primitive level and for unknown fields.
    pub fn any_of_type(&mut self, t: u8, depth: usize) -> TV {
        self.nodes += 1;
        let leafy = depth >= self.k.max_depth || self.exhausted();
        match t {
            T_BOOL => TV::Bool(self.r.chance(1, 2)),
            T_I8 => TV::I8(gen_i64_class(self.r, 8) as i8),
            T_I16 => TV::I16(gen_i64_class(self.r, 16) as i16),
            T_I32 => TV::I32(gen_i64_class(self.r, 32) as i32),
            T_I64 => TV::I64(gen_i64_class(self.r, 64)),
            T_DOUBLE => TV::Double(gen_double(self.r)),
            T_BINARY => {
                let utf8 = self.r.chance(1, 2);
                TV::Binary(gen_str(self.r, &self.k.clone(), utf8))
            }
            T_UUID => {
                let b = self.r.bytes(16);
                let mut u = [0u8; 16];
                u.copy_from_slice(&b);
                TV::Uuid(u)
            }
            T_STRUCT => {
                let n = if leafy { 0 } else { gen_len(self.r, &self.k.clone(), &[0, 1, 2, 16], self.k.max_len) };
                let mut fs = Vec::with_capacity(n);
                let mut id: i32 = 0;
                for _ in 0..n {
                    // mostly ascending small deltas, sometimes jumps / negatives / repeats
                    id = match self.r.below(12) {
                        0 => self.r.range(0, 65535) as i32 - 32768,
                        // just below the top of the id range, so that the following ids run into it
                        10 => 32767 - self.r.below(17) as i32,
                        1 => id + self.r.range(15, 400) as i32,
                        2 => id - self.r.range(0, 3) as i32,
                        _ => id + self.r.range(1, 15) as i32,
                    };
                    let id16 = id.clamp(i16::MIN as i32, i16::MAX as i32) as i16;
                    id = id16 as i32;
                    let ft = self.any_type();
                    fs.push((id16, self.any_of_type(ft, depth + 1)));
                }
                TV::Struct(fs)
            }
            T_LIST | T_SET => {
                let et = self.any_type();
                let n = if leafy { 0 } else { gen_len(self.r, &self.k.clone(), &LEN_BOUNDARY, self.k.max_len) };
                let n = self.cap_len(n, et);
                // rarely: more elements than any 16-bit bound (one-byte elements keep the message affordable)
                let n = if self.k.huge && matches!(et, T_BOOL | T_I8) && self.r.chance(1, 4) { *self.r.pick(&[65536usize, 65537, 70000]) } else { n };
                let xs = (0..n).map(|_| self.any_of_type(et, depth + 1)).collect();
                if t == T_LIST {
                    TV::List(et, xs)
                } else {
                    TV::Set(et, xs)
                }
            }
            T_MAP => {
                let kt = self.any_type();
                let vt = self.any_type();
                let n = if leafy { 0 } else { gen_len(self.r, &self.k.clone(), &LEN_BOUNDARY, self.k.max_len) };
                let n = self.cap_len(n, kt).min(self.cap_len(n, vt));
                let kv = (0..n).map(|_| (self.any_of_type(kt, depth + 1), self.any_of_type(vt, depth + 1))).collect();
                TV::Map(kt, vt, kv)
            }
            _ => TV::Bool(false),
        }
    }

    fn cap_len(&self, n: usize, et: u8) -> usize {
        // big boundary lengths only for cheap element types
        if n > self.k.max_len && matches!(et, T_STRUCT | T_MAP | T_SET | T_LIST) {
            n.min(self.k.max_len.max(2))
        } else {
            n
        }
    }

    pub fn any_type(&mut self) -> u8 {
        *self.r.pick(&ALL_TYPES)
    }

    pub fn any(&mut self, depth: usize) -> TV {
        let t = self.any_type();
        self.any_of_type(t, depth)
    }
}

// ------------------------------------------------------- schema-directed

pub struct Schema {
    pub corpus: crate::corpus_def::Corpus,
    /// corpus structs plus the synthesised service structs
    pub structs: Vec<StructDef>,
}

impl Schema {
    pub fn new() -> Self {
        let corpus = crate::corpus_def::corpus();
        let mut structs = corpus.structs.clone();
        for m in &corpus.service {
            let cap = {
                let mut c = m.name.chars();
                let f = c.next().unwrap().to_ascii_uppercase();
                format!("{}{}", f, c.as_str())
            };
            let leak = |s: String| -> &'static str { Box::leak(s.into_boxed_str()) };
            for side in ["Send", "Recv"] {
                structs.push(StructDef {
                    name: leak(format!("Svc{}Args{}", cap, side)),
                    kind: Kind::Struct,
                    fields: m
                        .args
                        .iter()
                        .cloned()
                        .map(|mut f| {
                            // argument structs: every argument is expected on the wire
                            f.req = Req::Required;
                            f
                        })
                        .collect(),
                });
                let mut rf = vec![];
                if let Some(rt) = &m.ret {
                    rf.push(crate::corpus_def::Field {
                        id: 0,
                        name: "ok".into(),
                        ty: rt.clone(),
                        req: Req::Default,
                        ann: "",
                        default: None,
                    });
                }
                rf.extend(m.throws.iter().cloned());
                structs.push(StructDef { name: leak(format!("Svc{}Result{}", cap, side)), kind: Kind::Union, fields: rf });
            }
            if !m.throws.is_empty() {
                structs.push(StructDef {
                    name: leak(format!("Svc{}Exception", cap)),
                    kind: Kind::Union,
                    fields: m.throws.clone(),
                });
            }
        }
        // the hand-written application-exception struct of the runtime (1: message, 2: type)
        structs.push(StructDef {
            name: "ApplicationException",
            kind: Kind::Struct,
            fields: vec![
                crate::corpus_def::Field { id: 1, name: "message".into(), ty: Ty::String, req: Req::Default, ann: "", default: None },
                crate::corpus_def::Field { id: 2, name: "type".into(), ty: Ty::I32, req: Req::Default, ann: "", default: None },
            ],
        });
        Schema { corpus, structs }
    }

    pub fn get(&self, name: &str) -> Option<&StructDef> {
        self.structs.iter().find(|s| s.name == name)
    }

    pub fn enum_values(&self, name: &str) -> Vec<i32> {
        self.corpus.enums.iter().find(|e| e.name == name).map(|e| e.variants.iter().map(|v| v.1).collect()).unwrap_or_default()
    }
}

pub fn wire_type(t: &Ty) -> u8 {
    match t {
        Ty::Bool => T_BOOL,
        Ty::I8 => T_I8,
        Ty::I16 => T_I16,
        Ty::I32 | Ty::Enum(_) => T_I32,
        Ty::I64 => T_I64,
        Ty::Double => T_DOUBLE,
        Ty::String | Ty::Binary => T_BINARY,
        Ty::Uuid => T_UUID,
        Ty::List(_) => T_LIST,
        Ty::Set(_) => T_SET,
        Ty::Map(..) => T_MAP,
        Ty::Struct(_) => T_STRUCT,
        Ty::Alias(_, t) => wire_type(t),
    }
}

/// How far the writer's schema may differ from the reader's.
#[derive(Clone, Debug)]
pub struct Evolve {
    /// per-100 chance, per struct, to insert unknown fields
    pub unknown_pct: u64,
    /// per-100 chance, per field, to retype it (wire type differs from declared)
    pub retype_pct: u64,
    /// per-100 chance to shuffle the field order of a struct
    pub shuffle_pct: u64,
    /// per-100 chance to drop a required field / give a union 0 or 2 fields
    pub break_pct: u64,
}

impl Evolve {
    pub fn none() -> Self {
        Evolve { unknown_pct: 0, retype_pct: 0, shuffle_pct: 0, break_pct: 0 }
    }
    pub fn swarm(r: &mut Rng) -> Self {
        Evolve {
            unknown_pct: *r.pick(&[0u64, 20, 60, 100]),
            retype_pct: *r.pick(&[0u64, 0, 5, 20]),
            shuffle_pct: *r.pick(&[0u64, 0, 30, 100]),
            break_pct: *r.pick(&[0u64, 0, 3, 15]),
        }
    }
}

impl<'a> GenCtx<'a> {
    pub fn of_ty(&mut self, sc: &Schema, ev: &Evolve, t: &Ty, depth: usize) -> TV {
        self.nodes += 1;
        let leafy = depth >= self.k.max_depth || self.exhausted();
        match t {
            Ty::Bool | Ty::I8 | Ty::I16 | Ty::I32 | Ty::I64 | Ty::Double | Ty::Uuid => {
                self.nodes -= 1;
                self.any_of_type(wire_type(t), depth)
            }
            Ty::Enum(n) => {
                let vals = sc.enum_values(n);
                if vals.is_empty() || self.r.chance(1, 10) {
                    TV::I32(gen_i64_class(self.r, 32) as i32)
                } else {
                    TV::I32(*self.r.pick(&vals))
                }
            }
            Ty::String => TV::Binary(gen_str(self.r, &self.k.clone(), true)),
            Ty::Binary => TV::Binary(gen_str(self.r, &self.k.clone(), false)),
            Ty::List(e) | Ty::Set(e) => {
                let n = if leafy { 0 } else { gen_len(self.r, &self.k.clone(), &LEN_BOUNDARY, self.k.max_len) };
                let et = wire_type(e);
                let n = self.cap_len(n, et);
                let n = if self.k.huge && matches!(et, T_BOOL | T_I8) && !leafy && self.r.chance(1, 4) { *self.r.pick(&[65536usize, 65537, 70000]) } else { n };
                let mut xs: Vec<TV> = (0..n).map(|_| self.of_ty(sc, ev, e, depth + 1)).collect();
                // a set element that occurs twice
                if matches!(t, Ty::Set(_)) && !xs.is_empty() && self.r.chance(1, 6) {
                    xs.push(xs[0].clone());
                }
                if matches!(t, Ty::List(_)) {
                    TV::List(et, xs)
                } else {
                    TV::Set(et, xs)
                }
            }
            Ty::Map(k, v) => {
                let n = if leafy { 0 } else { gen_len(self.r, &self.k.clone(), &LEN_BOUNDARY, self.k.max_len) };
                let (kt, vt) = (wire_type(k), wire_type(v));
                let n = self.cap_len(n, kt).min(self.cap_len(n, vt));
                let mut kv: Vec<(TV, TV)> = (0..n).map(|_| (self.of_ty(sc, ev, k, depth + 1), self.of_ty(sc, ev, v, depth + 1))).collect();
                // a key that occurs twice (legal on the wire; the decoder replaces and drops the first value)
                if !kv.is_empty() && self.r.chance(1, 6) {
                    let k0 = kv[0].0.clone();
                    let v2 = self.of_ty(sc, ev, v, depth + 1);
                    kv.push((k0, v2));
                }
                TV::Map(kt, vt, kv)
            }
            Ty::Struct(n) => {
                let def = sc.get(n).expect("struct in schema").clone();
                self.nodes -= 1;
                self.of_struct(sc, ev, &def, depth)
            }
            Ty::Alias(_, inner) => {
                self.nodes -= 1;
                self.of_ty(sc, ev, inner, depth)
            }
        }
    }

    pub fn of_struct(&mut self, sc: &Schema, ev: &Evolve, def: &StructDef, depth: usize) -> TV {
        self.nodes += 1;
        let leafy = depth >= self.k.max_depth || self.exhausted();
        let mut fs: Vec<(i16, TV)> = vec![];
        let broken = self.r.below(100) < ev.break_pct;
        match def.kind {
            Kind::Union => {
                if !def.fields.is_empty() {
                    let n = if broken { *self.r.pick(&[0usize, 2]) } else { 1 };
                    for _ in 0..n {
                        // prefer non-recursive variants when out of depth
                        let cands: Vec<&crate::corpus_def::Field> = if leafy {
                            let c: Vec<_> = def.fields.iter().filter(|f| !matches!(f.ty, Ty::Struct(_))).collect();
                            if c.is_empty() { def.fields.iter().collect() } else { c }
                        } else {
                            def.fields.iter().collect()
                        };
                        let f = *self.r.pick(&cands);
                        let f = f.clone();
                        let v = self.field_value(sc, ev, &f, depth);
                        fs.push((f.id, v));
                    }
                }
            }
            _ => {
                for f in &def.fields {
                    let present = match f.req {
                        Req::Required => !(broken && self.r.chance(1, 3)),
                        Req::Optional => !leafy && self.r.chance(1, 2) || (leafy && !is_deep(&f.ty) && self.r.chance(1, 2)),
                        Req::Default => !is_deep(&f.ty) || !leafy,
                    };
                    // recursive required/default struct fields at the depth limit must still appear:
                    // of_ty then produces a minimal struct
                    if present {
                        let v = self.field_value(sc, ev, f, depth);
                        fs.push((f.id, v));
                    }
                }
            }
        }
        if self.r.below(100) < ev.unknown_pct {
            let n = self.r.range(1, 3);
            for _ in 0..n {
                let id = loop {
                    let id = match self.r.below(4) {
                        0 => self.r.range(0, 65535) as i32 - 32768,
                        _ => self.r.range(1, 60) as i32,
                    } as i16;
                    if !def.fields.iter().any(|f| f.id == id) {
                        break id;
                    }
                };
                let v = self.any(depth + 1);
                let pos = self.r.below(fs.len() as u64 + 1) as usize;
                fs.insert(pos, (id, v));
            }
        }
        if self.r.below(100) < ev.shuffle_pct {
            // Fisher-Yates
            for i in (1..fs.len()).rev() {
                let j = self.r.below(i as u64 + 1) as usize;
                fs.swap(i, j);
            }
        }
        TV::Struct(fs)
    }

    fn field_value(&mut self, sc: &Schema, ev: &Evolve, f: &crate::corpus_def::Field, depth: usize) -> TV {
        if self.r.below(100) < ev.retype_pct {
            // a writer that declares this id with another type
            let t = self.any_type();
            self.any_of_type(t, depth + 1)
        } else {
            self.of_ty(sc, ev, &f.ty, depth + 1)
        }
    }
}

fn is_deep(t: &Ty) -> bool {
    match t {
        Ty::Alias(_, inner) => is_deep(inner),
        _ => matches!(t, Ty::Struct(_) | Ty::List(_) | Ty::Set(_) | Ty::Map(..)),
    }
}

/// A chain `{fid: {fid: ... {} }}` of `depth` nested structs (depth >= 1).
pub fn struct_chain(depth: usize, fid: i16) -> TV {
    let mut v = TV::Struct(vec![]);
    for _ in 1..depth {
        v = TV::Struct(vec![(fid, v)]);
    }
    v
}

/// Nested containers of `depth` levels around an i32 (depth >= 1), kinds chosen by rng.
pub fn container_chain(r: &mut Rng, depth: usize) -> TV {
    let mut v = TV::I32(7);
    for _ in 1..depth {
        v = match r.below(4) {
            0 => TV::List(v.ttype(), vec![v]),
            1 => TV::Set(v.ttype(), vec![v]),
            2 => TV::Map(T_I8, v.ttype(), vec![(TV::I8(1), v)]),
            _ => TV::Struct(vec![(r.range(1, 20) as i16, v)]),
        };
    }
    v
}

fn small_knobs(max_depth: usize) -> Knobs {
    Knobs { max_depth, max_nodes: 10, max_len: 3, max_str: 6, boundary_pct: 0, huge: false }
}

/// A chain of `links` nested containers whose every level also holds sibling values before
/// and after the link (small values of every wire type, maps with one fixed-size and one
/// variable-size side among them) and whose innermost level is a small composite value.
/// The caller takes the depth from the value (`TV::depth`).
pub fn rich_chain(r: &mut Rng, links: usize) -> TV {
    let mut v = {
        let mut cx = GenCtx::new(r, small_knobs(3));
        let t = *cx.r.pick(&[T_STRUCT, T_MAP, T_LIST, T_SET]);
        cx.any_of_type(t, 1)
    };
    for _ in 0..links {
        let sib = |r: &mut Rng| -> TV {
            match r.below(5) {
                0 => TV::Map(T_BINARY, T_I64, (0..r.range(1, 3)).map(|i| (TV::Binary(vec![b'k', i as u8]), TV::I64(i as i64))).collect()),
                1 => TV::Map(T_I32, T_BINARY, (0..r.range(1, 3)).map(|i| (TV::I32(i as i32), TV::Binary(vec![b'v'; i as usize]))).collect()),
                2 => TV::Binary(r.bytes(3)),
                _ => {
                    let mut cx = GenCtx::new(r, small_knobs(2));
                    let t = cx.any_type();
                    cx.any_of_type(t, 1)
                }
            }
        };
        v = match r.below(4) {
            0 => {
                // struct level: siblings before and after the link
                let mut fs = vec![];
                let mut id = 0i16;
                for _ in 0..r.below(4) {
                    id += r.range(1, 9) as i16;
                    fs.push((id, sib(r)));
                }
                id += r.range(1, 9) as i16;
                fs.push((id, v));
                for _ in 0..r.below(4) {
                    id += r.range(1, 9) as i16;
                    fs.push((id, sib(r)));
                }
                TV::Struct(fs)
            }
            1 => {
                // list level: the link among elements of the same wire type
                let t = v.ttype();
                let mut xs = vec![];
                let before = r.below(3);
                let after = r.below(3);
                for _ in 0..before {
                    let mut cx = GenCtx::new(r, small_knobs(2));
                    xs.push(cx.any_of_type(t, 1));
                }
                xs.push(v);
                for _ in 0..after {
                    let mut cx = GenCtx::new(r, small_knobs(2));
                    xs.push(cx.any_of_type(t, 1));
                }
                if r.chance(1, 2) { TV::List(t, xs) } else { TV::Set(t, xs) }
            }
            2 => {
                // map level, link as value: string keys, other entries around it
                let t = v.ttype();
                let mut kv = vec![];
                let before = r.below(3);
                let after = r.below(3);
                for i in 0..before {
                    let mut cx = GenCtx::new(r, small_knobs(2));
                    kv.push((TV::Binary(vec![b'a', i as u8]), cx.any_of_type(t, 1)));
                }
                kv.push((TV::Binary(b"link".to_vec()), v));
                for i in 0..after {
                    let mut cx = GenCtx::new(r, small_knobs(2));
                    kv.push((TV::Binary(vec![b'z', i as u8]), cx.any_of_type(t, 1)));
                }
                TV::Map(T_BINARY, t, kv)
            }
            _ => {
                // map level, link as key
                let t = v.ttype();
                TV::Map(t, T_I64, vec![(v, TV::I64(5))])
            }
        };
    }
    v
}

/// A chain of `depth` levels (as `TV::depth` counts them) whose innermost value is of every
/// kind in turn: an empty list / set / map / struct, a scalar, a string, a one-element container.
pub fn leaf_chain(r: &mut Rng, depth: usize) -> TV {
    let leaf = match r.below(8) {
        0 => TV::List(T_I32, vec![]),
        1 => TV::Set(T_BINARY, vec![]),
        2 => TV::Map(T_I32, T_BINARY, vec![]),
        3 => TV::Struct(vec![]),
        4 => TV::Bool(true),
        5 => TV::Binary(b"leaf".to_vec()),
        6 => TV::Uuid([7; 16]),
        _ => TV::Double(1.5f64.to_bits()),
    };
    let mut v = leaf;
    while v.depth() < depth {
        v = match r.below(5) {
            0 => TV::List(v.ttype(), vec![v]),
            1 => TV::Set(v.ttype(), vec![v]),
            2 => TV::Map(T_BINARY, v.ttype(), vec![(TV::Binary(b"k".to_vec()), v)]),
            3 => TV::Map(v.ttype(), T_I64, vec![(v, TV::I64(1))]),
            _ => TV::Struct(vec![(r.range(1, 20) as i16, v)]),
        };
    }
    v
}

/// A long run of small sibling containers (63..140 elements of one wire type, each drawn
/// separately so that maps and lists differ in their own element types) inside a struct,
/// followed by further fields: per-element bookkeeping errors add up over the run.
pub fn wide_run(r: &mut Rng) -> TV {
    let n = r.range(63, 140) as usize;
    let t = *r.pick(&[T_MAP, T_MAP, T_LIST, T_SET, T_STRUCT, T_BINARY]);
    let shape = r.below(4);
    let elems: Vec<TV> = (0..n)
        .map(|i| match (t, shape) {
            (T_MAP, 0) => TV::Map(T_BINARY, T_I64, vec![(TV::Binary(vec![b'k'; i % 3]), TV::I64(i as i64))]),
            (T_MAP, 1) => TV::Map(T_I16, T_BINARY, vec![(TV::I16(i as i16), TV::Binary(vec![b'v'; i % 4]))]),
            (T_STRUCT, 0) => TV::Struct(vec![(15, TV::I8(i as i8))]),
            (T_STRUCT, 1) => TV::Struct(vec![(r.range(1, 400) as i16, TV::Bool(i % 2 == 0)), (3000, TV::I16(7))]),
            _ => {
                let mut cx = GenCtx::new(r, small_knobs(2));
                cx.any_of_type(t, 1)
            }
        })
        .collect();
    let run = match r.below(3) {
        0 => TV::List(t, elems),
        1 => TV::Set(t, elems),
        _ => TV::Map(T_I32, t, elems.into_iter().enumerate().map(|(i, e)| (TV::I32(i as i32), e)).collect()),
    };
    let tail = {
        let mut cx = GenCtx::new(r, small_knobs(3));
        let tt = *cx.r.pick(&[T_STRUCT, T_LIST, T_MAP, T_BINARY]);
        cx.any_of_type(tt, 1)
    };
    TV::Struct(vec![(1, run), (2, tail), (3, TV::Binary(b"end".to_vec()))])
}

/// A deep "spine" through the recursive fields of a struct type: at every level one
/// struct-valued field (directly, through a list or through a map value) leads to the next
/// level; the other fields are drawn as usual but kept shallow.
pub fn spine(sc: &Schema, r: &mut Rng, name: &str, depth: usize) -> TV {
    let Some(def) = sc.get(name).cloned() else { return TV::Struct(vec![]) };
    let mut fs: Vec<(i16, TV)> = vec![];
    // required / default scalar fields so that the level itself decodes
    for f in &def.fields {
        if !is_deep(&f.ty) && (f.req != Req::Optional || r.chance(1, 3)) {
            let mut cx = GenCtx::new(r, Knobs::small());
            fs.push((f.id, cx.of_ty(sc, &Evolve::none(), &f.ty, 3)));
        }
    }
    if depth > 0 {
        let rec: Vec<&crate::corpus_def::Field> = def
            .fields
            .iter()
            .filter(|f| match &f.ty {
                Ty::Struct(n) => sc.get(n).map(|d| d.kind == Kind::Struct).unwrap_or(false) && is_recursive(sc, n),
                Ty::List(e) | Ty::Set(e) => matches!(&**e, Ty::Struct(n) if is_recursive(sc, n)),
                Ty::Map(_, v) => matches!(&**v, Ty::Struct(n) if is_recursive(sc, n)),
                _ => false,
            })
            .collect();
        if !rec.is_empty() {
            let f = (*r.pick(&rec)).clone();
            let v = match &f.ty {
                Ty::Struct(n) => spine(sc, r, n, depth - 1),
                Ty::List(e) | Ty::Set(e) => {
                    let Ty::Struct(n) = &**e else { unreachable!() };
                    let inner = spine(sc, r, n, depth - 1);
                    if matches!(f.ty, Ty::List(_)) { TV::List(T_STRUCT, vec![inner]) } else { TV::Set(T_STRUCT, vec![inner]) }
                }
                Ty::Map(k, v) => {
                    let Ty::Struct(n) = &**v else { unreachable!() };
                    let inner = spine(sc, r, n, depth - 1);
                    let key = {
                        let mut cx = GenCtx::new(r, Knobs::small());
                        cx.of_ty(sc, &Evolve::none(), k, 3)
                    };
                    TV::Map(wire_type(k), T_STRUCT, vec![(key, inner)])
                }
                _ => unreachable!(),
            };
            let pos = r.below(fs.len() as u64 + 1) as usize;
            fs.insert(pos, (f.id, v));
        }
    }
    fs.sort_by_key(|x| x.0);
    TV::Struct(fs)
}

/// Can a value of struct `name` contain another value of a struct type that leads back to it?
pub fn is_recursive(sc: &Schema, name: &str) -> bool {
    fn reach(sc: &Schema, from: &str, target: &str, seen: &mut Vec<String>) -> bool {
        if seen.iter().any(|s| s == from) {
            return false;
        }
        seen.push(from.to_string());
        let Some(d) = sc.get(from) else { return false };
        fn names(t: &Ty, out: &mut Vec<&'static str>) {
            match t {
                Ty::Struct(n) => out.push(n),
                Ty::List(e) | Ty::Set(e) => names(e, out),
                Ty::Map(k, v) => {
                    names(k, out);
                    names(v, out)
                }
                Ty::Alias(_, i) => names(i, out),
                _ => {}
            }
        }
        for f in &d.fields {
            let mut ns = vec![];
            names(&f.ty, &mut ns);
            for n in ns {
                if n == target || reach(sc, n, target, seen) {
                    return true;
                }
            }
        }
        false
    }
    reach(sc, name, name, &mut vec![])
}
