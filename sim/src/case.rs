// A case = one exactly repeatable execution: the bytes both legs see, the leg,
// and the explicit delivery schedule. Replay files are serialised cases.

use serde_json::{json, Value};

use crate::refenc::Proto;
use crate::stream::{Ev, IoKind, Schedule};

#[derive(Clone, Debug, PartialEq, Eq, Hash)]
pub enum Level {
    /// value interpreter reading one value of this wire type, then the trailer
    Prim(u8),
    /// generated type by table name
    Gen(String),
    /// skip(ttype) then the trailer
    Skip(u8),
    /// read_struct_begin, read_field_begin, skip(field type), read_field_end, then the sibling field
    SkipField,
    /// unchecked binary reader: read_field_begin + skip (iterative skipper), in-memory only
    SkipUnchecked,
    /// read_message_begin, one struct by the interpreter, read_message_end
    Envelope,
    /// three messages in a row on one protocol instance (envelope, struct, end; three times)
    Envelopes,
    /// protobuf leg: "pbgen:<Msg>", "pbgenld:<Msg>", "pbwrap:<ty>", "pbcodec:<codec>:<wire type>:<s|r>"
    Pb(String),
}

impl Level {
    pub fn name(&self) -> String {
        match self {
            Level::Prim(t) => format!("prim:{}", t),
            Level::Gen(n) => format!("gen:{}", n),
            Level::Skip(t) => format!("skip:{}", t),
            Level::SkipField => "skipfield".into(),
            Level::SkipUnchecked => "skipunchecked".into(),
            Level::Envelope => "envelope".into(),
            Level::Envelopes => "envelopes".into(),
            Level::Pb(n) => n.clone(),
        }
    }
    pub fn from_name(s: &str) -> Option<Level> {
        if let Some(r) = s.strip_prefix("prim:") {
            return r.parse().ok().map(Level::Prim);
        }
        if let Some(r) = s.strip_prefix("gen:") {
            return Some(Level::Gen(r.to_string()));
        }
        if let Some(r) = s.strip_prefix("skip:") {
            return r.parse().ok().map(Level::Skip);
        }
        if s.starts_with("pb") {
            return Some(Level::Pb(s.to_string()));
        }
        match s {
            "skipfield" => Some(Level::SkipField),
            "skipunchecked" => Some(Level::SkipUnchecked),
            "envelope" => Some(Level::Envelope),
            "envelopes" => Some(Level::Envelopes),
            _ => None,
        }
    }
    /// coarse class for statistics
    pub fn class(&self) -> &'static str {
        match self {
            Level::Prim(_) => "prim",
            Level::Gen(_) => "gen",
            Level::Skip(_) => "skip",
            Level::SkipField => "skipfield",
            Level::SkipUnchecked => "skipunchecked",
            Level::Envelope => "envelope",
            Level::Envelopes => "envelope",
            Level::Pb(n) => {
                if n.starts_with("pbgenld") {
                    "pbgenld"
                } else if n.starts_with("pbgen") {
                    "pbgen"
                } else if n.starts_with("pbwrap") {
                    "pbwrap"
                } else {
                    "pbcodec"
                }
            }
        }
    }
}

#[derive(Clone, Debug)]
pub struct Case {
    pub prop: String,
    pub proto: Proto,
    pub level: Level,
    /// what both legs see (already faulted)
    pub bytes: Vec<u8>,
    /// Some(n): bytes[..n] is a valid encoding and bytes[n..] the trailer (valid, fault-free case)
    pub valid_len: Option<usize>,
    /// expected depth verdict for C07 depth cases: Some(true) = must be refused with DepthLimit,
    /// Some(false) = must be skipped exactly, None = no depth expectation
    pub expect_refused: Option<bool>,
    /// this input is a strict prefix of a valid struct encoding (C09 oracle e)
    pub strict_prefix: bool,
    /// expected main value in `{:?}` form (skip-field levels), if the model dictates one
    pub expect: Option<String>,
    pub sched: Schedule,
    /// which legs to run
    pub run_mem: bool,
    pub run_stream: bool,
    /// human description of the fault applied
    pub fault: String,
    /// fault kind for counters
    pub fault_kind: String,
    /// short rendering of the value
    pub note: String,
    pub unit: u64,
    pub idx: u64,
    /// C19: an input decoded (and dropped) on the same thread just before this one; what the
    /// decoder still holds afterwards must not depend on it
    pub prior: Option<Vec<u8>>,
}

impl Case {
    pub fn digest(&self) -> u64 {
        crate::rng::mix(&[
            crate::rng::hash_str(&self.prop),
            self.proto as u64,
            crate::rng::hash_str(&self.level.name()),
            crate::rng::hash_bytes(&self.bytes),
            self.sched.digest(),
            self.valid_len.map(|x| x as u64 + 1).unwrap_or(0),
        ])
    }
    pub fn input_digest(&self) -> u64 {
        crate::rng::mix(&[
            self.proto as u64,
            crate::rng::hash_str(&self.level.name()),
            crate::rng::hash_bytes(&self.bytes),
        ])
    }

    pub fn to_json(&self) -> Value {
        json!({
            "property": self.prop,
            "proto": self.proto.name(),
            "level": self.level.name(),
            "bytes_hex": hex(&self.bytes),
            "valid_len": self.valid_len,
            "expect_refused": self.expect_refused,
            "strict_prefix": self.strict_prefix,
            "expect": self.expect,
            "schedule": sched_to_json(&self.sched),
            "run_mem": self.run_mem,
            "run_stream": self.run_stream,
            "fault": self.fault,
            "fault_kind": self.fault_kind,
            "note": self.note,
            "unit": self.unit,
            "idx": self.idx,
            "prior_hex": self.prior.as_ref().map(|p| hex(p)),
        })
    }

    pub fn from_json(v: &Value) -> Option<Case> {
        Some(Case {
            prop: v.get("property")?.as_str()?.to_string(),
            proto: Proto::from_name(v.get("proto")?.as_str()?)?,
            level: Level::from_name(v.get("level")?.as_str()?)?,
            bytes: unhex(v.get("bytes_hex")?.as_str()?)?,
            valid_len: v.get("valid_len").and_then(|x| x.as_u64()).map(|x| x as usize),
            expect_refused: v.get("expect_refused").and_then(|x| x.as_bool()),
            strict_prefix: v.get("strict_prefix").and_then(|x| x.as_bool()).unwrap_or(false),
            expect: v.get("expect").and_then(|x| x.as_str()).map(|s| s.to_string()),
            sched: sched_from_json(v.get("schedule")?)?,
            run_mem: v.get("run_mem").and_then(|x| x.as_bool()).unwrap_or(true),
            run_stream: v.get("run_stream").and_then(|x| x.as_bool()).unwrap_or(true),
            fault: v.get("fault").and_then(|x| x.as_str()).unwrap_or("").to_string(),
            fault_kind: v.get("fault_kind").and_then(|x| x.as_str()).unwrap_or("").to_string(),
            note: v.get("note").and_then(|x| x.as_str()).unwrap_or("").to_string(),
            unit: v.get("unit").and_then(|x| x.as_u64()).unwrap_or(0),
            idx: v.get("idx").and_then(|x| x.as_u64()).unwrap_or(0),
            prior: v.get("prior_hex").and_then(|x| x.as_str()).and_then(unhex),
        })
    }
}

pub fn hex(b: &[u8]) -> String {
    let mut s = String::with_capacity(b.len() * 2);
    for x in b {
        s.push_str(&format!("{:02x}", x));
    }
    s
}

pub fn unhex(s: &str) -> Option<Vec<u8>> {
    if s.len() % 2 != 0 {
        return None;
    }
    let b = s.as_bytes();
    let mut out = Vec::with_capacity(s.len() / 2);
    for i in (0..b.len()).step_by(2) {
        let h = (b[i] as char).to_digit(16)?;
        let l = (b[i + 1] as char).to_digit(16)?;
        out.push((h * 16 + l) as u8);
    }
    Some(out)
}

pub fn sched_to_json(s: &Schedule) -> Value {
    // run-length text form: "d5 p d1 w3 ..." (d=deliver, p=pending, w=deferred wake)
    let mut parts: Vec<String> = vec![];
    for e in &s.evs {
        parts.push(match e {
            Ev::Deliver(n) => format!("d{}", n),
            Ev::Pending => "p".into(),
            Ev::Defer(k) => format!("w{}", k),
        });
    }
    json!({
        "events": parts.join(" "),
        "tail": s.tail,
        "io_error": s.io_error.map(|(p, k)| json!({"at": p, "kind": k.name()})),
    })
}

pub fn sched_from_json(v: &Value) -> Option<Schedule> {
    let mut evs = vec![];
    for tok in v.get("events")?.as_str()?.split_whitespace() {
        if tok == "p" {
            evs.push(Ev::Pending);
        } else if let Some(n) = tok.strip_prefix('d') {
            evs.push(Ev::Deliver(n.parse().ok()?));
        } else if let Some(n) = tok.strip_prefix('w') {
            evs.push(Ev::Defer(n.parse().ok()?));
        } else {
            return None;
        }
    }
    let tail = v.get("tail")?.as_u64()? as u32;
    let io_error = match v.get("io_error") {
        Some(Value::Object(o)) => Some((o.get("at")?.as_u64()? as usize, IoKind::from_name(o.get("kind")?.as_str()?)?)),
        _ => None,
    };
    Some(Schedule { evs, tail, io_error })
}

#[derive(Clone, Debug)]
pub struct Violation {
    pub prop: String,
    pub class: String,
    /// call site / discriminating detail used to key known findings
    pub site: String,
    pub detail: String,
    pub case: Case,
}

impl Violation {
    pub fn to_json(&self) -> Value {
        json!({
            "property": self.prop,
            "class": self.class,
            "site": self.site,
            "detail": self.detail,
            "case": self.case.to_json(),
        })
    }
    pub fn from_json(v: &Value) -> Option<Violation> {
        Some(Violation {
            prop: v.get("property")?.as_str()?.to_string(),
            class: v.get("class")?.as_str()?.to_string(),
            site: v.get("site")?.as_str()?.to_string(),
            detail: v.get("detail")?.as_str()?.to_string(),
            case: Case::from_json(v.get("case")?)?,
        })
    }
    pub fn key(&self) -> String {
        // allocation sites carry the request size in brackets: not part of the identity
        let site = self.site.split(" [").next().unwrap_or("");
        format!("{}|{}|{}|{}|{}", self.prop, self.class, site, self.case.proto.name(), self.case.level.class())
    }
}
