// One integer decides everything: SplitMix64 for derivation, xoshiro256** for streams.

#[inline]
pub fn splitmix64(state: &mut u64) -> u64 {
    *state = state.wrapping_add(0x9E37_79B9_7F4A_7C15);
    let mut z = *state;
    z = (z ^ (z >> 30)).wrapping_mul(0xBF58_476D_1CE4_E5B9);
    z = (z ^ (z >> 27)).wrapping_mul(0x94D0_49BB_1331_11EB);
    z ^ (z >> 31)
}

/// Mix a list of integers into one 64-bit value (order-sensitive).
pub fn mix(parts: &[u64]) -> u64 {
    let mut s = 0x243F_6A88_85A3_08D3u64;
    for p in parts {
        s ^= *p;
        let _ = splitmix64(&mut s);
        s = s.rotate_left(23) ^ splitmix64(&mut s);
    }
    s
}

pub fn hash_bytes(b: &[u8]) -> u64 {
    // FNV-1a 64 followed by a splitmix finaliser; stable across processes.
    let mut h = 0xcbf2_9ce4_8422_2325u64;
    for x in b {
        h ^= *x as u64;
        h = h.wrapping_mul(0x0000_0100_0000_01B3);
    }
    let mut s = h;
    splitmix64(&mut s)
}

pub fn hash_str(s: &str) -> u64 {
    hash_bytes(s.as_bytes())
}

#[derive(Clone, Debug)]
pub struct Rng {
    s: [u64; 4],
}

impl Rng {
    pub fn new(seed: u64) -> Self {
        let mut st = seed;
        let s = [splitmix64(&mut st), splitmix64(&mut st), splitmix64(&mut st), splitmix64(&mut st)];
        Rng { s }
    }
    pub fn derive(seed: u64, tags: &[u64]) -> Self {
        let mut v = vec![seed];
        v.extend_from_slice(tags);
        Rng::new(mix(&v))
    }
    #[inline]
    pub fn next(&mut self) -> u64 {
        let r = self.s[1].wrapping_mul(5).rotate_left(7).wrapping_mul(9);
        let t = self.s[1] << 17;
        self.s[2] ^= self.s[0];
        self.s[3] ^= self.s[1];
        self.s[1] ^= self.s[2];
        self.s[0] ^= self.s[3];
        self.s[2] ^= t;
        self.s[3] = self.s[3].rotate_left(45);
        r
    }
    /// uniform in 0..n (n > 0)
    #[inline]
    pub fn below(&mut self, n: u64) -> u64 {
        debug_assert!(n > 0);
        // multiply-shift; bias is irrelevant here
        ((self.next() as u128 * n as u128) >> 64) as u64
    }
    #[inline]
    pub fn range(&mut self, lo: u64, hi_incl: u64) -> u64 {
        lo + self.below(hi_incl - lo + 1)
    }
    #[inline]
    pub fn chance(&mut self, num: u64, den: u64) -> bool {
        self.below(den) < num
    }
    #[inline]
    pub fn pick<'a, T>(&mut self, xs: &'a [T]) -> &'a T {
        &xs[self.below(xs.len() as u64) as usize]
    }
    pub fn bytes(&mut self, n: usize) -> Vec<u8> {
        let mut v = Vec::with_capacity(n);
        while v.len() < n {
            let x = self.next().to_le_bytes();
            let take = (n - v.len()).min(8);
            v.extend_from_slice(&x[..take]);
        }
        v
    }
}
