// pilota-sim: deterministic simulation with fault injection for pilota's
// Thrift runtime and generated code (properties C07, C09, C12, C19; C10 in prost.rs).

mod alloc;
mod case;
mod controller;
mod corpus_def;
mod pcorpus_def;
mod eval;
mod legs;
mod minimise;
mod props;
mod pwire;
mod refenc;
mod rng;
mod stream;
mod tval;
mod units;
mod worker;

#[allow(warnings, clippy::all)]
pub mod gen {
    include!(concat!(env!("OUT_DIR"), "/corpus_gen.rs"));
}
#[allow(warnings, clippy::all)]
pub mod gen_keep {
    include!(concat!(env!("OUT_DIR"), "/corpus_keep_gen.rs"));
}

#[allow(warnings, clippy::all)]
pub mod pgen {
    include!(concat!(env!("OUT_DIR"), "/pcorpus_gen.rs"));
}

#[allow(warnings, clippy::all)]
pub mod pgen2 {
    include!(concat!(env!("OUT_DIR"), "/pcorpus2_gen.rs"));
}

#[global_allocator]
static GLOBAL: alloc::Counting = alloc::Counting;

use std::collections::BTreeMap;

use case::Violation;
use units::Tier;

fn arg<'a>(args: &'a [String], name: &str) -> Option<&'a str> {
    args.iter().position(|a| a == name).and_then(|i| args.get(i + 1)).map(|s| s.as_str())
}

fn usage() -> ! {
    eprintln!(
        "usage:\n  pilota-sim run --prop <C07|C09|C12|C19> --tier <quick|thorough> [--seed N] [--units N] [--workers N] [--verif-dir DIR]\n  pilota-sim replay <file> [--verif-dir DIR]\n  pilota-sim print-idl\n  (internal) pilota-sim worker ... | eval-case <file>"
    );
    std::process::exit(2)
}

fn default_units(prop: &str, tier: Tier) -> u64 {
    match (prop, tier) {
        ("C12", Tier::Quick) => 40_000,
        ("C12", Tier::Thorough) => 600_000,
        ("C07", Tier::Quick) => 200_000,
        ("C07", Tier::Thorough) => 3_000_000,
        ("C09", Tier::Quick) => 800,
        ("C09", Tier::Thorough) => 12_000,
        ("C10", Tier::Quick) => 2_000,
        ("C10", Tier::Thorough) => 60_000,
        ("C19", Tier::Quick) => 500,
        ("C19", Tier::Thorough) => 5_000,
        _ => 100,
    }
}

fn main() {
    let args: Vec<String> = std::env::args().collect();
    if args.len() < 2 {
        usage();
    }
    match args[1].as_str() {
        "print-idl" => println!("{}", corpus_def::print_thrift(&corpus_def::corpus())),
        "worker" => {
            let a = worker::WorkerArgs {
                prop: arg(&args, "--prop").unwrap_or_else(|| usage()).to_string(),
                seed: arg(&args, "--seed").and_then(|s| s.parse().ok()).unwrap_or(20260101),
                tier: if arg(&args, "--tier") == Some("thorough") { Tier::Thorough } else { Tier::Quick },
                from: arg(&args, "--from").and_then(|s| s.parse().ok()).unwrap_or(0),
                to: arg(&args, "--to").and_then(|s| s.parse().ok()).unwrap_or(0),
                stride: arg(&args, "--stride").and_then(|s| s.parse().ok()).unwrap_or(1),
                offset: arg(&args, "--offset").and_then(|s| s.parse().ok()).unwrap_or(0),
                resume_unit: arg(&args, "--resume-unit").and_then(|s| s.parse().ok()),
                resume_idx: arg(&args, "--resume-idx").and_then(|s| s.parse().ok()).unwrap_or(0),
                base: arg(&args, "--base").unwrap_or_else(|| usage()).to_string(),
                checkpoint: arg(&args, "--checkpoint").and_then(|s| s.parse().ok()).unwrap_or(0),
            };
            worker::worker_main(a);
        }
        "run" => run(&args),
        "replay" => {
            let file = args.get(2).cloned().unwrap_or_else(|| usage());
            std::process::exit(minimise::replay_file(&file));
        }
        "show" => {
            let file = args.get(2).cloned().unwrap_or_else(|| usage());
            minimise::show_main(&file);
        }
        "eval-case" => {
            // evaluate one case in this process (used by replay / minimise for crash classes)
            let file = args.get(2).cloned().unwrap_or_else(|| usage());
            minimise::eval_case_main(&file);
        }
        "trace" => {
            // print the per-case digests of a few units: used by the determinism self-test
            let prop = arg(&args, "--prop").unwrap_or_else(|| usage()).to_string();
            let seed = arg(&args, "--seed").and_then(|s| s.parse().ok()).unwrap_or(20260101);
            let from: u64 = arg(&args, "--from").and_then(|s| s.parse().ok()).unwrap_or(0);
            let to: u64 = arg(&args, "--to").and_then(|s| s.parse().ok()).unwrap_or(10);
            minimise::trace_main(&prop, seed, from, to);
        }
        _ => usage(),
    }
}

fn run(args: &[String]) {
    let prop = arg(args, "--prop").unwrap_or_else(|| usage()).to_string();
    if !["C07", "C09", "C10", "C12", "C19"].contains(&prop.as_str()) {
        usage();
    }
    let tier = match arg(args, "--tier") {
        Some("thorough") => Tier::Thorough,
        Some("quick") | None => Tier::Quick,
        _ => usage(),
    };
    let seed: u64 = arg(args, "--seed")
        .map(|s| s.to_string())
        .or_else(|| std::env::var("VERIF_SEED").ok())
        .and_then(|s| s.parse().ok())
        .unwrap_or(20260101);
    let units = arg(args, "--units").and_then(|s| s.parse().ok()).unwrap_or_else(|| default_units(&prop, tier));
    let workers: u64 = arg(args, "--workers")
        .and_then(|s| s.parse().ok())
        .unwrap_or_else(|| std::thread::available_parallelism().map(|n| n.get() as u64).unwrap_or(4).min(16));
    let verif_dir = arg(args, "--verif-dir").unwrap_or("/verif").to_string();
    println!("VERIF_SEED={} property={} tier={:?} units={} workers={}", seed, prop, tier, units, workers);
    let checkpoint: u64 = arg(args, "--checkpoint").and_then(|s| s.parse().ok()).unwrap_or(0);
    let evidence_dir = arg(args, "--evidence-dir").map(|s| s.to_string());
    let cfg = controller::RunCfg { prop: prop.clone(), seed, tier, units, workers, verif_dir: verif_dir.clone(), time_budget: None, checkpoint, evidence_dir };
    let (agg, cases, scheds, states, wall) = controller::run_workers(&cfg);

    // triage
    let known = controller::load_known(&verif_dir);
    let mut known_hit: BTreeMap<String, (String, u64)> = BTreeMap::new();
    let mut unknown: BTreeMap<String, (Violation, u64)> = BTreeMap::new();
    for v in &agg.violations {
        if let Some(k) = controller::match_known(&known, v) {
            let e = known_hit.entry(k.id.clone()).or_insert((k.what.clone(), 0));
            e.1 += 1;
        } else {
            let e = unknown.entry(v.key()).or_insert((v.clone(), 0));
            e.1 += 1;
        }
    }
    let mut known_lines = vec![];
    for (id, (what, n)) in &known_hit {
        let line = format!("KNOWN-FINDING: property={} {} [{}; {} occurrences in this run]", prop, what, id, n);
        println!("{}", line);
        known_lines.push(line);
    }
    let total_unknown: u64 = unknown.values().map(|x| x.1).sum();
    controller::write_evidence(&cfg, &agg, cases.len(), scheds.len(), states.len(), wall, total_unknown as usize, &known_lines);
    println!(
        "property={} evaluations={} units={} distinct_nontrivial={} schedules={} states={} worker_deaths={} wall={:.1}s",
        prop,
        agg.evaluations,
        agg.units,
        cases.len(),
        scheds.len(),
        states.len(),
        agg.deaths,
        wall
    );
    if unknown.is_empty() {
        println!("OK property={} held on everything explored", prop);
        std::process::exit(0);
    }
    let _ = std::fs::create_dir_all(format!("{}/replays", verif_dir));
    let mut shown = 0;
    for (key, (v, n)) in &unknown {
        if shown >= 5 {
            println!("... and {} more distinct violation keys", unknown.len() - shown);
            break;
        }
        shown += 1;
        let min = minimise::minimise(v, &verif_dir);
        let path = format!("{}/replays/{}-{}-{}-{}.json", verif_dir, prop, seed, min.case.unit, min.case.idx);
        let mut j = min.to_json();
        j["seed"] = serde_json::json!(seed);
        j["occurrences"] = serde_json::json!(n);
        j["key"] = serde_json::json!(key);
        std::fs::write(&path, serde_json::to_string_pretty(&j).unwrap()).expect("write replay");
        println!("violation class={} site={} detail={} ({} occurrences)", min.class, min.site, min.detail, n);
        println!("VIOLATION property={} replay={}", prop, path);
    }
    std::process::exit(1);
}
