// Protobuf side of the simulator (C10): an independent wire-format generator
// with a layout map, the adversarial Buf seam (SimBuf), and the legs that drive
// pilota's real protobuf decoders.

use bytes::{Buf, Bytes};
use pilota::prost::encoding::{self as enc, DecodeContext, WireType};
use pilota::prost::{DecodeError, Message as PMessage};

use crate::pcorpus_def::*;
use crate::refenc::{put_uvarint, put_uvarint_padded, zigzag32, zigzag64, Span, SpanKind};
use crate::rng::Rng;

// ------------------------------------------------------------------ SimBuf

/// A legal but adversarial `bytes::Buf`: `chunk()` exposes only the prefix up
/// to the next scripted boundary; `remaining()` is exact; `advance` crosses
/// chunks.
pub struct SimBuf {
    data: Bytes,
    pos: usize,
    /// absolute offsets at which a chunk ends (ascending)
    bounds: Vec<usize>,
    next_bound: usize,
    pub chunk_calls: std::cell::Cell<u64>,
    pub short_chunks: std::cell::Cell<u64>,
}

impl SimBuf {
    pub fn new(data: Vec<u8>, chunk_sizes: &[u32], tail: u32) -> SimBuf {
        let len = data.len();
        let mut bounds = vec![];
        let mut at = 0usize;
        for c in chunk_sizes {
            at += (*c).max(1) as usize;
            if at >= len {
                break;
            }
            bounds.push(at);
        }
        if tail > 0 {
            while at + (tail as usize) < len {
                at += tail as usize;
                bounds.push(at);
            }
        }
        bounds.push(len);
        SimBuf { data: Bytes::from(data), pos: 0, bounds, next_bound: 0, chunk_calls: std::cell::Cell::new(0), short_chunks: std::cell::Cell::new(0) }
    }
    fn cur_end(&self) -> usize {
        let mut i = self.next_bound;
        while i < self.bounds.len() && self.bounds[i] <= self.pos {
            i += 1;
        }
        if i < self.bounds.len() {
            self.bounds[i]
        } else {
            self.data.len()
        }
    }
}

impl Buf for SimBuf {
    fn remaining(&self) -> usize {
        self.data.len() - self.pos
    }
    fn chunk(&self) -> &[u8] {
        let end = self.cur_end();
        self.chunk_calls.set(self.chunk_calls.get() + 1);
        if end < self.data.len() {
            self.short_chunks.set(self.short_chunks.get() + 1);
        }
        &self.data[self.pos..end]
    }
    fn advance(&mut self, cnt: usize) {
        assert!(cnt <= self.remaining(), "SimBuf: advance past the end (a Buf contract violation by the caller)");
        self.pos += cnt;
        while self.next_bound < self.bounds.len() && self.bounds[self.next_bound] <= self.pos {
            self.next_bound += 1;
        }
    }
}

// -------------------------------------------------------- wire generator

pub struct PEnc {
    pub out: Vec<u8>,
    pub spans: Vec<Span>,
    depth: u16,
    /// write some keys, length prefixes and values as over-wide varints (legal: decoders accept up to ten
    /// bytes): 0 = never, n = about one value in n (decided by the value alone, see the thrift encoder)
    pub pad: u8,
}

impl PEnc {
    pub fn new() -> Self {
        PEnc { out: vec![], spans: vec![], depth: 0, pad: 0 }
    }
    fn span(&mut self, start: usize, kind: SpanKind) {
        self.spans.push(Span { start, end: self.out.len(), kind, depth: self.depth });
    }
    pub fn key(&mut self, tag: u32, wt: u8) {
        let s = self.out.len();
        put_uvarint_padded(&mut self.out, ((tag as u64) << 3) | wt as u64, 10, self.pad);
        self.span(s, SpanKind::Type);
    }
    pub fn len_prefixed(&mut self, body: &[u8], payload: bool) {
        let s = self.out.len();
        put_uvarint_padded(&mut self.out, body.len() as u64, 10, self.pad);
        self.span(s, SpanKind::Len);
        let s = self.out.len();
        self.out.extend_from_slice(body);
        if payload {
            self.span(s, SpanKind::Payload);
        }
    }
    /// append a nested encoder's output as a length-delimited body, shifting its spans
    pub fn nested(&mut self, sub: PEnc) {
        let s = self.out.len();
        put_uvarint_padded(&mut self.out, sub.out.len() as u64, 10, self.pad);
        self.span(s, SpanKind::Len);
        let base = self.out.len();
        self.out.extend_from_slice(&sub.out);
        for mut sp in sub.spans {
            sp.start += base;
            sp.end += base;
            sp.depth += self.depth + 1;
            self.spans.push(sp);
        }
    }
}

#[derive(Clone)]
pub struct PKnobs {
    pub max_depth: usize,
    pub max_rep: usize,
    pub max_str: usize,
    pub unknown_pct: u64,
    pub present_pct: u64,
    pub pad: u8,
}

impl PKnobs {
    pub fn swarm(r: &mut Rng) -> Self {
        PKnobs {
            max_depth: *r.pick(&[1usize, 2, 3, 5, 8]),
            max_rep: *r.pick(&[0usize, 1, 3, 6, 20]),
            max_str: *r.pick(&[0usize, 3, 12, 40, 200]),
            unknown_pct: *r.pick(&[0u64, 10, 40]),
            present_pct: *r.pick(&[30u64, 60, 100]),
            pad: *r.pick(&[0u8, 0, 0, 1, 3, 7]),
        }
    }
}

fn varint_class(r: &mut Rng) -> u64 {
    match r.below(10) {
        0 => 0,
        1 => 1,
        2 => 127,
        3 => 128,
        4 => u32::MAX as u64,
        5 => u64::MAX,
        6 => i32::MIN as i64 as u64,
        7 => 1u64 << (7 * r.range(1, 9)),
        _ => r.next() >> r.below(64),
    }
}

pub struct PGen<'a> {
    pub r: &'a mut Rng,
    pub k: PKnobs,
    pub corpus: &'a PCorpus,
    /// remaining number of fields that may still be emitted (keeps recursive messages finite)
    pub budget: usize,
}

impl<'a> PGen<'a> {
    fn scalar(&mut self, e: &mut PEnc, tag: u32, kind: &PK) {
        match kind {
            PK::Int32 | PK::Int64 | PK::Uint32 | PK::Uint64 | PK::Bool | PK::Enum(_) => {
                e.key(tag, 0);
                let v = match kind {
                    PK::Bool => self.r.below(2),
                    PK::Enum(_) => *self.r.pick(&[0u64, 1, 9, 5, u64::MAX]),
                    _ => varint_class(self.r),
                };
                put_uvarint_padded(&mut e.out, v, 10, e.pad);
            }
            PK::Sint32 => {
                e.key(tag, 0);
                put_uvarint_padded(&mut e.out, zigzag32(varint_class(self.r) as i32) as u64, 10, e.pad);
            }
            PK::Sint64 => {
                e.key(tag, 0);
                put_uvarint_padded(&mut e.out, zigzag64(varint_class(self.r) as i64), 10, e.pad);
            }
            PK::Fixed32 | PK::Sfixed32 | PK::Float => {
                e.key(tag, 5);
                e.out.extend_from_slice(&(self.r.next() as u32).to_le_bytes());
            }
            PK::Fixed64 | PK::Sfixed64 | PK::Double => {
                e.key(tag, 1);
                e.out.extend_from_slice(&self.r.next().to_le_bytes());
            }
            PK::String => {
                e.key(tag, 2);
                let n = self.str_len();
                let s: Vec<u8> = if self.r.chance(1, 3) { crate::tval::multibyte_text(self.r, n) } else { (0..n).map(|_| b'a' + self.r.below(26) as u8).collect() };
                e.len_prefixed(&s, true);
            }
            PK::Bytes => {
                e.key(tag, 2);
                let n = self.str_len();
                let s = self.r.bytes(n);
                e.len_prefixed(&s, true);
            }
            PK::Msg(_) => unreachable!(),
        }
    }

    pub fn scalar_pub(&mut self, e: &mut PEnc, tag: u32, kind: &PK) {
        e.pad = self.k.pad;
        self.scalar(e, tag, kind)
    }

    fn str_len(&mut self) -> usize {
        if self.r.chance(1, 12) {
            *self.r.pick(&[0usize, 1, 127, 128, 300])
        } else {
            self.r.below(self.k.max_str as u64 + 1) as usize
        }
    }

    /// value bytes only (no key) of a packable scalar
    fn packed_value(&mut self, out: &mut Vec<u8>, kind: &PK) {
        match kind {
            PK::Fixed32 | PK::Sfixed32 | PK::Float => out.extend_from_slice(&(self.r.next() as u32).to_le_bytes()),
            PK::Fixed64 | PK::Sfixed64 | PK::Double => out.extend_from_slice(&self.r.next().to_le_bytes()),
            PK::Sint32 => put_uvarint_padded(out, zigzag32(varint_class(self.r) as i32) as u64, 10, self.k.pad),
            PK::Sint64 => put_uvarint_padded(out, zigzag64(varint_class(self.r) as i64), 10, self.k.pad),
            PK::Bool => put_uvarint_padded(out, self.r.below(2), 10, self.k.pad),
            _ => put_uvarint_padded(out, varint_class(self.r), 10, self.k.pad),
        }
    }

    fn field_value(&mut self, e: &mut PEnc, tag: u32, kind: &PK, depth: usize) {
        match kind {
            PK::Msg(n) => {
                e.key(tag, 2);
                let mut sub = PEnc::new();
                sub.pad = e.pad;
                if depth < self.k.max_depth {
                    self.message(&mut sub, n, depth + 1);
                }
                e.nested(sub);
            }
            k => self.scalar(e, tag, k),
        }
    }

    pub fn unknown_field(&mut self, e: &mut PEnc, depth: usize) {
        let tag = *self.r.pick(&[100u32, 1000, 9999, 200_000, 536_870_911]);
        match self.r.below(6) {
            0 => {
                e.key(tag, 0);
                put_uvarint(&mut e.out, varint_class(self.r));
            }
            1 => {
                e.key(tag, 1);
                e.out.extend_from_slice(&self.r.next().to_le_bytes());
            }
            2 => {
                e.key(tag, 5);
                e.out.extend_from_slice(&(self.r.next() as u32).to_le_bytes());
            }
            3 => {
                e.key(tag, 2);
                let n = self.str_len();
                let s = self.r.bytes(n);
                e.len_prefixed(&s, true);
            }
            _ => {
                // a group with a few unknown fields inside
                e.key(tag, 3);
                if depth < self.k.max_depth + 2 {
                    let n = self.r.below(3);
                    for _ in 0..n {
                        self.unknown_field(e, depth + 1);
                    }
                }
                e.key(tag, 4);
            }
        }
    }

    pub fn message(&mut self, e: &mut PEnc, name: &str, depth: usize) {
        e.pad = self.k.pad;
        let Some(m) = self.corpus.msgs.iter().find(|m| m.name == name) else { return };
        let m = m.clone();
        let mut oneof_done: Vec<&'static str> = vec![];
        // wire order: declared order, sometimes shuffled
        let mut order: Vec<usize> = (0..m.fields.len()).collect();
        if self.r.chance(1, 4) {
            for i in (1..order.len()).rev() {
                let j = self.r.below(i as u64 + 1) as usize;
                order.swap(i, j);
            }
        }
        for i in order {
            let fl = &m.fields[i];
            if self.r.below(100) >= self.k.present_pct {
                continue;
            }
            if self.budget == 0 {
                break;
            }
            self.budget -= 1;
            if self.r.below(100) < self.k.unknown_pct {
                self.unknown_field(e, depth);
            }
            match &fl.label {
                PL::Single | PL::Optional => {
                    self.field_value(e, fl.tag, &fl.kind, depth);
                    // a repeated occurrence of a singular field (last one wins / messages merge)
                    if self.r.chance(1, 10) {
                        self.field_value(e, fl.tag, &fl.kind, depth);
                    }
                }
                PL::Oneof(g) => {
                    if oneof_done.contains(g) && !self.r.chance(1, 8) {
                        continue;
                    }
                    oneof_done.push(g);
                    self.field_value(e, fl.tag, &fl.kind, depth);
                }
                PL::Repeated | PL::RepeatedUnpacked | PL::Packed => {
                    let n = (self.r.below(self.k.max_rep as u64 + 1) as usize).min(self.budget + 1);
                    let packable = !matches!(fl.kind, PK::String | PK::Bytes | PK::Msg(_));
                    if packable && self.r.chance(1, 2) {
                        // packed (accepted for both declarations)
                        let mut body = vec![];
                        for _ in 0..n {
                            self.packed_value(&mut body, &fl.kind);
                        }
                        e.key(fl.tag, 2);
                        e.len_prefixed(&body, false);
                    } else {
                        for _ in 0..n {
                            self.field_value(e, fl.tag, &fl.kind, depth);
                        }
                    }
                }
                PL::Map(kk) => {
                    let n = (self.r.below(self.k.max_rep.min(6) as u64 + 1) as usize).min(self.budget + 1);
                    for _ in 0..n {
                        e.key(fl.tag, 2);
                        let mut ent = PEnc::new();
                        ent.pad = e.pad;
                        let style = self.r.below(8);
                        if style != 0 {
                            self.scalar(&mut ent, 1, kk);
                        }
                        if style != 1 {
                            self.field_value(&mut ent, 2, &fl.kind, depth + 1);
                        }
                        if style == 2 {
                            self.unknown_field(&mut ent, depth + 1);
                        }
                        e.nested(ent);
                    }
                }
            }
        }
    }
}

/// `depth` nested messages through field `tag` (length-delimited), innermost empty.
pub fn nest_messages(tag: u32, depth: usize) -> Vec<u8> {
    let mut body: Vec<u8> = vec![];
    for _ in 0..depth {
        let mut o = Vec::with_capacity(body.len() + 8);
        put_uvarint(&mut o, ((tag as u64) << 3) | 2);
        put_uvarint(&mut o, body.len() as u64);
        o.extend_from_slice(&body);
        body = o;
    }
    body
}

/// `depth` nested messages through field `tag`, the innermost one holding `leaf` as its body.
pub fn nest_messages_leaf(tag: u32, depth: usize, leaf: &[u8]) -> Vec<u8> {
    let mut body: Vec<u8> = leaf.to_vec();
    for _ in 0..depth {
        let mut o = Vec::with_capacity(body.len() + 8);
        put_uvarint(&mut o, ((tag as u64) << 3) | 2);
        put_uvarint(&mut o, body.len() as u64);
        o.extend_from_slice(&body);
        body = o;
    }
    body
}

/// A `Node` body without further nesting that uses every non-recursive field: packed runs of
/// varints, fixed-width values and enums, the same fields unpacked, a scalar, strings.
pub fn node_leaf_body() -> Vec<u8> {
    let mut o = vec![];
    // f7 repeated int64, packed [1, 300, u64::MAX]
    let mut run = vec![];
    put_uvarint(&mut run, 1);
    put_uvarint(&mut run, 300);
    put_uvarint(&mut run, u64::MAX);
    put_uvarint(&mut o, (7 << 3) | 2);
    put_uvarint(&mut o, run.len() as u64);
    o.extend_from_slice(&run);
    // f8 repeated fixed32, packed
    put_uvarint(&mut o, (8 << 3) | 2);
    put_uvarint(&mut o, 8);
    o.extend_from_slice(&[1, 0, 0, 0, 0xff, 0xff, 0xff, 0xff]);
    // f9 repeated enum, packed
    put_uvarint(&mut o, (9 << 3) | 2);
    put_uvarint(&mut o, 3);
    o.extend_from_slice(&[0, 1, 9]);
    // f10 repeated sint32, packed although declared unpacked
    put_uvarint(&mut o, (10 << 3) | 2);
    put_uvarint(&mut o, 2);
    o.extend_from_slice(&[3, 4]);
    // f11 repeated double, packed
    put_uvarint(&mut o, (11 << 3) | 2);
    put_uvarint(&mut o, 8);
    o.extend_from_slice(&1.5f64.to_le_bytes());
    // the same fields unpacked, a scalar, strings
    put_uvarint(&mut o, 7 << 3);
    put_uvarint(&mut o, 5);
    put_uvarint(&mut o, (8 << 3) | 5);
    o.extend_from_slice(&[7, 0, 0, 0]);
    put_uvarint(&mut o, 4 << 3);
    put_uvarint(&mut o, 77);
    put_uvarint(&mut o, (6 << 3) | 2);
    put_uvarint(&mut o, 4);
    o.extend_from_slice(b"leaf");
    o
}

/// `depth` nested groups with tag `tag` (start ... end).
pub fn nest_groups(tag: u32, depth: usize) -> Vec<u8> {
    let mut o = vec![];
    for _ in 0..depth {
        put_uvarint(&mut o, ((tag as u64) << 3) | 3);
    }
    for _ in 0..depth {
        put_uvarint(&mut o, ((tag as u64) << 3) | 4);
    }
    o
}

/// `depth` nested map entries: Node.f3 (map<string, Node>) all the way down.
pub fn nest_maps(depth: usize) -> Vec<u8> {
    let mut body: Vec<u8> = vec![];
    for _ in 0..depth {
        // entry = { 1: "k", 2: <node body> }
        let mut ent = vec![];
        put_uvarint(&mut ent, (1 << 3) | 2);
        put_uvarint(&mut ent, 1);
        ent.push(b'k');
        put_uvarint(&mut ent, (2 << 3) | 2);
        put_uvarint(&mut ent, body.len() as u64);
        ent.extend_from_slice(&body);
        let mut o = vec![];
        put_uvarint(&mut o, (3 << 3) | 2);
        put_uvarint(&mut o, ent.len() as u64);
        o.extend_from_slice(&ent);
        body = o;
    }
    body
}

// ----------------------------------------------------------------- legs

/// Hand-written message used to drive the runtime `encoding::group` codec
/// (pilota-build has no group support). Harness code: reported as a stub.
#[derive(Debug, Default, Clone, PartialEq)]
pub struct GroupMsg {
    pub a: i32,
    pub s: String,
    pub child: Option<Box<GroupMsg>>,
    pub kids: Vec<GroupMsg>,
}

impl PMessage for GroupMsg {
    fn encode_raw<B: bytes::BufMut>(&self, _buf: &mut B) {}
    fn merge_field<B: Buf>(&mut self, tag: u32, wire_type: WireType, buf: &mut B, ctx: DecodeContext) -> Result<(), DecodeError> {
        match tag {
            1 => enc::int32::merge(wire_type, &mut self.a, buf, ctx),
            2 => enc::string::merge(wire_type, &mut self.s, buf, ctx),
            3 => {
                let mut c = self.child.take().unwrap_or_default();
                let r = enc::group::merge(3, wire_type, &mut *c, buf, ctx);
                self.child = Some(c);
                r
            }
            4 => enc::group::merge_repeated(4, wire_type, &mut self.kids, buf, ctx),
            _ => enc::skip_field(wire_type, tag, buf, ctx),
        }
    }
    fn encoded_len(&self) -> usize {
        0
    }
}

pub fn wire_type_of(n: u8) -> Option<WireType> {
    WireType::try_from(n as u64).ok()
}

pub const GEN_MSGS: [&str; 14] = ["AllScalars", "Small", "Maps", "Choice", "Node", "Peer", "Envelope", "Holder", "GroupMsg", "P2Small", "P2Req", "P2Opt", "P2Rec", "Scrambled"];
/// generated message types a unit draws its base message from (Envelope twice: it reaches most of the others)
pub const GEN_PICK: [&str; 14] = ["AllScalars", "Small", "Maps", "Choice", "Node", "Peer", "Envelope", "Envelope", "Holder", "P2Req", "P2Opt", "P2Rec", "P2Opt", "Scrambled"];

pub fn decode_gen<B: Buf>(name: &str, buf: B, length_delimited: bool) -> Result<(), DecodeError> {
    use crate::pgen::pcorpus_gen::pcorpus as g;
    use crate::pgen2::pcorpus2_gen::pcorpus2 as g2;
    macro_rules! go {
        ($t:ty) => {
            if length_delimited {
                <$t as PMessage>::decode_length_delimited(buf).map(|_| ())
            } else {
                <$t as PMessage>::decode(buf).map(|_| ())
            }
        };
    }
    match name {
        "AllScalars" => go!(g::AllScalars),
        "Small" => go!(g::Small),
        "Maps" => go!(g::Maps),
        "Choice" => go!(g::Choice),
        "Node" => go!(g::Node),
        "Peer" => go!(g::Peer),
        "Envelope" => go!(g::Envelope),
        "Holder" => go!(g::Holder),
        "Scrambled" => go!(g::Scrambled),
        "GroupMsg" => go!(GroupMsg),
        "P2Small" => go!(g2::P2Small),
        "P2Req" => go!(g2::P2Req),
        "P2Opt" => go!(g2::P2Opt),
        "P2Rec" => go!(g2::P2Rec),
        _ => Err(DecodeError::new("harness:unknown message")),
    }
}

pub const WRAPPERS: [&str; 11] = ["bool", "u32", "u64", "i32", "i64", "f32", "f64", "String", "VecU8", "Bytes", "unit"];

pub fn decode_wrapper<B: Buf>(name: &str, buf: B) -> Result<(), DecodeError> {
    match name {
        "bool" => <bool as PMessage>::decode(buf).map(|_| ()),
        "u32" => <u32 as PMessage>::decode(buf).map(|_| ()),
        "u64" => <u64 as PMessage>::decode(buf).map(|_| ()),
        "i32" => <i32 as PMessage>::decode(buf).map(|_| ()),
        "i64" => <i64 as PMessage>::decode(buf).map(|_| ()),
        "f32" => <f32 as PMessage>::decode(buf).map(|_| ()),
        "f64" => <f64 as PMessage>::decode(buf).map(|_| ()),
        "String" => <String as PMessage>::decode(buf).map(|_| ()),
        "VecU8" => <Vec<u8> as PMessage>::decode(buf).map(|_| ()),
        "Bytes" => <Bytes as PMessage>::decode(buf).map(|_| ()),
        "unit" => <() as PMessage>::decode(buf).map(|_| ()),
        _ => Err(DecodeError::new("harness:unknown wrapper")),
    }
}

pub const CODECS: [&str; 27] = [
    "bool", "int32", "int64", "uint32", "uint64", "sint32", "sint64", "float", "double", "fixed32", "fixed64", "sfixed32", "sfixed64", "string", "faststr", "bytes",
    "bytes_vec", "message", "group", "hash_map_i32_str", "btree_map_str_msg", "hash_map_str_node", "skip", "key", "varint", "length_delimiter", "enum_i32",
];

/// Drive one runtime field codec on `buf` (the bytes that follow a key of wire
/// type `wt`), through both `merge` and `merge_repeated`.
pub fn decode_codec<B: Buf>(name: &str, wt: WireType, buf: &mut B, repeated: bool) -> Result<(), DecodeError> {
    use crate::pgen::pcorpus_gen::pcorpus as g;
    let ctx = DecodeContext::default();
    macro_rules! num {
        ($m:ident, $t:ty) => {{
            if repeated {
                let mut v: Vec<$t> = vec![];
                enc::$m::merge_repeated(wt, &mut v, buf, ctx)
            } else {
                let mut v: $t = Default::default();
                enc::$m::merge(wt, &mut v, buf, ctx)
            }
        }};
    }
    match name {
        "bool" => num!(bool, bool),
        "int32" => num!(int32, i32),
        "enum_i32" => {
            let mut v: g::Kind = Default::default();
            enc::int32::merge(wt, &mut v, buf, ctx)
        }
        "int64" => num!(int64, i64),
        "uint32" => num!(uint32, u32),
        "uint64" => num!(uint64, u64),
        "sint32" => num!(sint32, i32),
        "sint64" => num!(sint64, i64),
        "float" => num!(float, f32),
        "double" => num!(double, f64),
        "fixed32" => num!(fixed32, u32),
        "fixed64" => num!(fixed64, u64),
        "sfixed32" => num!(sfixed32, i32),
        "sfixed64" => num!(sfixed64, i64),
        "string" => {
            if repeated {
                let mut v: Vec<String> = vec![];
                enc::string::merge_repeated(wt, &mut v, buf, ctx)
            } else {
                let mut v = String::new();
                enc::string::merge(wt, &mut v, buf, ctx)
            }
        }
        "faststr" => {
            if repeated {
                let mut v: Vec<pilota::FastStr> = vec![];
                enc::faststr::merge_repeated(wt, &mut v, buf, ctx)
            } else {
                let mut v = pilota::FastStr::default();
                enc::faststr::merge(wt, &mut v, buf, ctx)
            }
        }
        "bytes" => {
            if repeated {
                let mut v: Vec<Bytes> = vec![];
                enc::bytes::merge_repeated(wt, &mut v, buf, ctx)
            } else {
                let mut v = Bytes::new();
                enc::bytes::merge(wt, &mut v, buf, ctx)
            }
        }
        "bytes_vec" => {
            if repeated {
                let mut v: Vec<Vec<u8>> = vec![];
                enc::bytes::merge_repeated(wt, &mut v, buf, ctx)
            } else {
                let mut v: Vec<u8> = vec![];
                enc::bytes::merge(wt, &mut v, buf, ctx)
            }
        }
        "message" => {
            if repeated {
                let mut v: Vec<g::Node> = vec![];
                enc::message::merge_repeated(wt, &mut v, buf, ctx)
            } else {
                let mut v = g::Envelope::default();
                enc::message::merge(wt, &mut v, buf, ctx)
            }
        }
        "group" => {
            if repeated {
                let mut v: Vec<GroupMsg> = vec![];
                enc::group::merge_repeated(3, wt, &mut v, buf, ctx)
            } else {
                let mut v = GroupMsg::default();
                enc::group::merge(3, wt, &mut v, buf, ctx)
            }
        }
        "hash_map_i32_str" => {
            let mut m: pilota::AHashMap<i32, String> = Default::default();
            enc::hash_map::merge(enc::int32::merge, enc::string::merge, &mut m, buf, ctx)
        }
        "btree_map_str_msg" => {
            let mut m: std::collections::BTreeMap<String, g::Small> = Default::default();
            enc::btree_map::merge(enc::string::merge, enc::message::merge, &mut m, buf, ctx)
        }
        "hash_map_str_node" => {
            let mut m: pilota::AHashMap<String, g::Node> = Default::default();
            enc::hash_map::merge(enc::string::merge, enc::message::merge, &mut m, buf, ctx)
        }
        "skip" => enc::skip_field(wt, 3, buf, ctx),
        "key" => enc::decode_key(buf).map(|_| ()),
        "varint" => enc::decode_varint(buf).map(|_| ()),
        "length_delimiter" => pilota::prost::decode_length_delimiter(buf).map(|_| ()),
        _ => Err(DecodeError::new("harness:unknown codec")),
    }
}
