// Controller: forks worker processes, attributes worker deaths to the case
// that was running, matches violations against the committed known findings,
// minimises and writes replay files, writes the evidence file.

use std::collections::{BTreeMap, HashSet};
use std::io::{BufRead, BufReader, Read};
use std::process::{Command, Stdio};
use std::sync::{Arc, Mutex};
use std::time::{Duration, Instant};

use serde_json::{json, Value};

use crate::case::{Case, Violation};
use crate::units::{unit_cases, Tier, World};
use crate::worker::Progress;

pub const HANG_SITE: &str = "watchdog: the case did not finish (3 s of CPU or 60 s of wall time in the run; 8 s of wall time on replay)";

pub struct RunCfg {
    pub prop: String,
    pub seed: u64,
    pub tier: Tier,
    pub units: u64,
    pub workers: u64,
    pub verif_dir: String,
    pub time_budget: Option<Duration>,
    pub checkpoint: u64,
    /// write the evidence file here instead of <verif_dir>/evidence (self-tests)
    pub evidence_dir: Option<String>,
}

#[derive(Default)]
pub struct Agg {
    pub counters: BTreeMap<String, u64>,
    pub evaluations: u64,
    pub units: u64,
    pub samples: Vec<Value>,
    pub violations: Vec<Violation>,
    pub deaths: u64,
}

pub struct KnownFinding {
    pub id: String,
    pub property: String,
    pub class: String,
    pub site_contains: String,
    pub site_also: Option<String>,
    pub proto: Option<String>,
    pub level_class: Option<String>,
    pub what: String,
}

pub fn load_known(verif_dir: &str) -> Vec<KnownFinding> {
    let p = format!("{}/known_findings.json", verif_dir);
    let Ok(s) = std::fs::read_to_string(&p) else { return vec![] };
    let Ok(v) = serde_json::from_str::<Value>(&s) else {
        eprintln!("harness error: {} is not valid JSON", p);
        std::process::exit(2);
    };
    let mut out = vec![];
    for f in v.get("findings").and_then(|x| x.as_array()).cloned().unwrap_or_default() {
        let g = |k: &str| f.get(k).and_then(|x| x.as_str()).map(|s| s.to_string());
        out.push(KnownFinding {
            id: g("id").unwrap_or_default(),
            property: g("property").unwrap_or_default(),
            class: g("class").unwrap_or_default(),
            site_contains: g("site_contains").unwrap_or_default(),
            site_also: g("site_also"),
            proto: g("proto"),
            level_class: g("level_class"),
            what: g("what").unwrap_or_default(),
        });
    }
    out
}

pub fn match_known<'a>(k: &'a [KnownFinding], v: &Violation) -> Option<&'a KnownFinding> {
    k.iter().find(|f| {
        f.property == v.prop
            && f.class == v.class
            && v.site.contains(&f.site_contains)
            && f.site_also.as_ref().map(|x| v.site.contains(x.as_str())).unwrap_or(true)
            && f.proto.as_ref().map(|p| p == v.case.proto.name()).unwrap_or(true)
            && f.level_class.as_ref().map(|l| l == v.case.level.class()).unwrap_or(true)
    })
}

fn scratch_dir(verif_dir: &str) -> String {
    let d = format!("{}/target/sim-scratch/{}", verif_dir, std::process::id());
    std::fs::create_dir_all(&d).expect("scratch dir");
    d
}

fn read_digests(path: &str, into: &mut HashSet<u64>) {
    if let Ok(b) = std::fs::read(path) {
        for ch in b.chunks_exact(8) {
            into.insert(u64::from_le_bytes(ch.try_into().unwrap()));
        }
    }
}

/// What killed a worker, from its wait status and stderr.
pub fn classify_death(status: &std::process::ExitStatus, stderr: &str) -> (String, String) {
    use std::os::unix::process::ExitStatusExt;
    let sig = status.signal();
    if stderr.contains("has overflowed its stack") {
        return ("stack_overflow".into(), "stack".into());
    }
    if let Some(i) = stderr.rfind("ALLOC-CAP") {
        let line = stderr[i..].lines().next().unwrap_or("").to_string();
        let site = stderr.rfind("ALLOC-SITE ").map(|j| stderr[j + 11..].lines().next().unwrap_or("").to_string()).unwrap_or_else(|| "?".into());
        return ("alloc_bound".into(), format!("{} [{}]", site, line));
    }
    if stderr.contains("panic in a function that cannot unwind") || stderr.contains("panicked while panicking") {
        return ("abort_double_panic".into(), "abort".into());
    }
    match sig {
        Some(11) | Some(7) => ("segv".into(), format!("signal {}", sig.unwrap())),
        Some(6) => ("abort".into(), "signal 6".into()),
        Some(9) => ("killed".into(), "signal 9".into()),
        Some(s) => ("signal".into(), format!("signal {}", s)),
        None => ("exit".into(), format!("exit code {:?}", status.code())),
    }
}

struct WorkerOutcome {
    finished: bool,
    hang_killed: bool,
    status: std::process::ExitStatus,
    stderr: String,
}

fn spawn_worker(cfg: &RunCfg, base: &str, w: u64, resume: Option<(u64, u64)>, agg: &Arc<Mutex<Agg>>, deadline: Option<Instant>) -> WorkerOutcome {
    let exe = std::env::current_exe().expect("current exe");
    let mut cmd = Command::new(exe);
    cmd.arg("worker")
        .arg("--prop").arg(&cfg.prop)
        .arg("--seed").arg(cfg.seed.to_string())
        .arg("--tier").arg(if cfg.tier == Tier::Quick { "quick" } else { "thorough" })
        .arg("--from").arg("0")
        .arg("--to").arg(cfg.units.to_string())
        .arg("--stride").arg(cfg.workers.to_string())
        .arg("--offset").arg(w.to_string())
        .arg("--base").arg(base)
        .arg("--checkpoint").arg(cfg.checkpoint.to_string());
    if let Some((u, i)) = resume {
        cmd.arg("--resume-unit").arg(u.to_string()).arg("--resume-idx").arg(i.to_string());
    }
    cmd.env("RUST_BACKTRACE", "0");
    cmd.stdin(Stdio::null()).stdout(Stdio::piped()).stderr(Stdio::piped());
    let mut child = cmd.spawn().expect("spawn worker");
    let stdout = child.stdout.take().unwrap();
    let mut stderr = child.stderr.take().unwrap();
    let errh = std::thread::spawn(move || {
        let mut s = Vec::new();
        let _ = stderr.read_to_end(&mut s);
        // keep the tail only
        let s = String::from_utf8_lossy(&s).to_string();
        if s.len() > 8192 { s[s.len() - 8192..].to_string() } else { s }
    });
    // watchdog: no progress for 20 s of wall time => kill (sync decoders cannot be step-counted)
    let pid = child.id();
    let prog_path = format!("{}.progress", base);
    let stop = Arc::new(std::sync::atomic::AtomicBool::new(false));
    let killed = Arc::new(std::sync::atomic::AtomicBool::new(false));
    let (stop2, killed2) = (stop.clone(), killed.clone());
    let wd = std::thread::spawn(move || {
        // A case that makes no progress is a hang. Sync decoders cannot be step-counted, so the
        // judge is the worker's own CPU time (robust against a loaded machine): 3 s of CPU on one
        // case (typical case: well under a millisecond), or 60 s of wall time for a blocked one.
        let cpu_ticks = |pid: u32| -> u64 {
            std::fs::read_to_string(format!("/proc/{}/stat", pid))
                .ok()
                .and_then(|s| {
                    let rest = s.rsplit(") ").next()?.to_string();
                    let f: Vec<&str> = rest.split_whitespace().collect();
                    // after the command name: state is field 0, utime is field 11, stime field 12
                    Some(f.get(11)?.parse::<u64>().ok()? + f.get(12)?.parse::<u64>().ok()?)
                })
                .unwrap_or(0)
        };
        let hz = 100u64;
        let mut last = (u64::MAX, u64::MAX, u64::MAX);
        let mut since = Instant::now();
        let mut cpu_at_change = cpu_ticks(pid);
        let mut prog: Option<Progress> = None;
        while !stop2.load(std::sync::atomic::Ordering::Relaxed) {
            std::thread::sleep(Duration::from_millis(100));
            if prog.is_none() && std::path::Path::new(&prog_path).exists() {
                prog = Some(Progress::open(&prog_path));
            }
            let Some(pg) = prog.as_ref() else { continue };
            let p = pg.get();
            if p != last {
                last = p;
                since = Instant::now();
                cpu_at_change = cpu_ticks(pid);
            } else if p.2 == 1 {
                let cpu = cpu_ticks(pid).saturating_sub(cpu_at_change);
                if cpu >= 3 * hz || since.elapsed() > Duration::from_secs(60) {
                    killed2.store(true, std::sync::atomic::Ordering::Relaxed);
                    unsafe { libc::kill(pid as i32, libc::SIGKILL) };
                    return;
                }
            }
            if let Some(d) = deadline {
                if Instant::now() > d + Duration::from_secs(30) {
                    unsafe { libc::kill(pid as i32, libc::SIGKILL) };
                    return;
                }
            }
        }
    });
    let mut finished = false;
    for line in BufReader::new(stdout).lines() {
        let Ok(line) = line else { break };
        if let Some(j) = line.strip_prefix("V ") {
            if let Ok(v) = serde_json::from_str::<Value>(j) {
                if let Some(v) = Violation::from_json(&v) {
                    agg.lock().unwrap().violations.push(v);
                }
            }
        } else if let Some(j) = line.strip_prefix("S ") {
            if let Ok(v) = serde_json::from_str::<Value>(j) {
                let mut a = agg.lock().unwrap();
                if let Some(c) = v.get("counters").and_then(|c| c.as_object()) {
                    for (k, n) in c {
                        *a.counters.entry(k.clone()).or_insert(0) += n.as_u64().unwrap_or(0);
                    }
                }
                a.evaluations += v.get("evaluations").and_then(|x| x.as_u64()).unwrap_or(0);
                a.units += v.get("units").and_then(|x| x.as_u64()).unwrap_or(0);
                if a.samples.len() < 8 {
                    for s in v.get("samples").and_then(|x| x.as_array()).cloned().unwrap_or_default() {
                        if a.samples.len() < 8 {
                            a.samples.push(s);
                        }
                    }
                }
            }
        } else if line == "DONE" {
            finished = true;
        }
    }
    let status = child.wait().expect("wait worker");
    stop.store(true, std::sync::atomic::Ordering::Relaxed);
    let _ = wd.join();
    let stderr = errh.join().unwrap_or_default();
    WorkerOutcome { finished, hang_killed: killed.load(std::sync::atomic::Ordering::Relaxed), status, stderr }
}

pub fn death_violation(prop: &str, case: &Case, class: &str, site: &str, stderr_tail: &str) -> Option<Violation> {
    let leg = if case.run_mem { "mem" } else { "stream" };
    let mk = |class: &str, site: String| {
        Some(Violation {
            prop: prop.to_string(),
            class: class.to_string(),
            site,
            detail: format!("worker process died while running this case: {}", stderr_tail.lines().rev().take(3).collect::<Vec<_>>().join(" | ")),
            case: case.clone(),
        })
    };
    match prop {
        "C09" => {
            if class == "stack_overflow" || class == "segv" {
                // no backtrace survives a stack overflow: identify it by what was being decoded from what
                let lv = match &case.level {
                    crate::case::Level::Gen(n) => format!("gen:{}", n),
                    o => o.class().to_string(),
                };
                mk(class, format!("{}/{}/{}", leg, lv, case.fault_kind))
            } else {
                mk(class, format!("{}/{}", leg, site))
            }
        }
        "C07" => mk(&format!("worker_death_{}", class), format!("{}/{}", leg, case.level.class())),
        "C10" => mk(class, format!("{}/{}/{}", if case.run_stream { "simbuf" } else { "bytes" }, case.level.name(), if class == "alloc_bound" { site } else { case.fault_kind.as_str() })),
        _ => None,
    }
}

pub fn run_workers(cfg: &RunCfg) -> (Agg, HashSet<u64>, HashSet<u64>, HashSet<u64>, f64) {
    let t0 = Instant::now();
    let scratch = scratch_dir(&cfg.verif_dir);
    let agg = Arc::new(Mutex::new(Agg::default()));
    let deadline = cfg.time_budget.map(|d| t0 + d);
    let mut handles = vec![];
    for w in 0..cfg.workers {
        let base = format!("{}/w{}", scratch, w);
        let agg = agg.clone();
        let cfg2 = RunCfg {
            prop: cfg.prop.clone(),
            seed: cfg.seed,
            tier: cfg.tier,
            units: cfg.units,
            workers: cfg.workers,
            verif_dir: cfg.verif_dir.clone(),
            time_budget: cfg.time_budget,
            checkpoint: cfg.checkpoint,
            evidence_dir: cfg.evidence_dir.clone(),
        };
        handles.push(std::thread::spawn(move || {
            let world = World::new();
            let mut resume: Option<(u64, u64)> = None;
            loop {
                let o = spawn_worker(&cfg2, &base, w, resume, &agg, deadline);
                if o.finished {
                    break;
                }
                // the worker died: which case was it running?
                let (u, i, stage) = Progress::open(&format!("{}.progress", base)).get();
                let (class, site) = if o.hang_killed { ("hang".to_string(), HANG_SITE.to_string()) } else { classify_death(&o.status, &o.stderr) };
                let mut a = agg.lock().unwrap();
                a.deaths += 1;
                *a.counters.entry(format!("worker_death.{}", class)).or_insert(0) += 1;
                if stage != 1 || i == u64::MAX {
                    // died outside a case: a harness problem, not a verdict
                    eprintln!("harness error: worker {} died outside a case (unit {} stage {}): {} {}\n{}", w, u, stage, class, site, o.stderr);
                    std::process::exit(2);
                }
                let cases = unit_cases(&world, &cfg2.prop, cfg2.seed, u, cfg2.tier);
                if std::env::var("SIM_VERBOSE").is_ok() {
                    eprintln!("worker {} died: class={} site={} unit={} idx={} stage={} stderr_tail={:?}", w, class, site, u, i, stage, o.stderr.lines().rev().take(4).collect::<Vec<_>>());
                }
                if let Some(c) = cases.get(i as usize) {
                    match death_violation(&cfg2.prop, c, &class, &site, &o.stderr) {
                        Some(v) => a.violations.push(v),
                        None => *a.counters.entry("skipped.worker_death".into()).or_insert(0) += 1,
                    }
                }
                let hangs = a.counters.get("worker_death.hang").copied().unwrap_or(0);
                drop(a);
                if hangs >= 12 {
                    // every further hang costs seconds: enough evidence, stop this worker's share
                    break;
                }
                resume = Some((u, i + 1));
                if let Some(d) = deadline {
                    if Instant::now() > d {
                        break;
                    }
                }
            }
        }));
    }
    for h in handles {
        if h.join().is_err() {
            eprintln!("harness error: a controller thread panicked; the run is incomplete");
            std::process::exit(2);
        }
    }
    let mut cases = HashSet::new();
    let mut scheds = HashSet::new();
    let mut states = HashSet::new();
    for w in 0..cfg.workers {
        let base = format!("{}/w{}", scratch, w);
        read_digests(&format!("{}.cases", base), &mut cases);
        read_digests(&format!("{}.scheds", base), &mut scheds);
        read_digests(&format!("{}.states", base), &mut states);
    }
    let _ = std::fs::remove_dir_all(&scratch);
    let agg = Arc::try_unwrap(agg).ok().expect("agg").into_inner().unwrap();
    (agg, cases, scheds, states, t0.elapsed().as_secs_f64())
}

pub fn level_for(prop: &str) -> &'static str {
    match prop {
        "C07" | "C12" => "exploration",
        _ => "fault_enumeration",
    }
}

pub fn rule_for(prop: &str) -> &'static str {
    match prop {
        "C12" => "cases = (input bytes, leg, explicit delivery schedule) derived from VERIF_SEED: per unit one seeded value (generated type with writer-schema variation / arbitrary wire value / message envelope) x {whole, byte-at-a-time, every single split point for short messages, seeded multi-split schedules with Pending and deferred wakes} plus truncations and bit flips; each case runs the real in-memory decoder and the real async decoder over SimStream. A case is non-trivial if its schedule splits or delays delivery or its input is faulted; distinct = distinct digest of (property, protocol, level, bytes, schedule).",
        "C07" => "cases = (encoded value + trailer, skip level, schedule): per unit a seeded value of an arbitrary wire type skipped directly, as an unknown field followed by a sibling field, and (binary) through the unchecked reader's iterative skipper; depth band nest 1..60 / 70..80 and 200..100000-deep bombs; stream legs under whole, bytewise, every single split (short values) and seeded Pending schedules. Non-trivial = anything but the single whole-buffer fault-free configuration; distinct by digest of (protocol, level, bytes, schedule, leg).",
        "C09" => "fault enumeration per seeded base message: every truncation point, every single-bit flip (short messages; sampled above), every length/count span overwritten with the boundary set, type codes, field ids, span drop/duplication, random byte strings, nesting bombs; each on the in-memory leg and on the stream leg under a seeded schedule (some with injected I/O errors). Non-trivial = a fault was applied; distinct by digest of (protocol, level, faulted bytes, schedule, leg).",
        "C10" => "fault enumeration per seeded base (generated protobuf messages from the schema table, every runtime field codec with every wire type, the well-known wrapper impls, length-delimited framing): every truncation point, bit flips, every length prefix overwritten with the boundary set, the wire-type bits of every key rewritten to 0..7, span drop/duplication, random bytes, nesting of messages / repeated messages / map entries / known and unknown groups to depth 1..20000; each input through a contiguous Bytes and through SimBuf (a Buf whose chunk() exposes seeded fragments: 1-byte, split inside varints and fixed-width values). Non-trivial = a fault was applied or the Buf is fragmented; distinct by digest of (level, bytes, chunk plan, leg).",
        "C19" => "fault enumeration per seeded base message (generated types mostly): every truncation point and the C09 corruptions; each failing decode is executed three times and the allocator's live-byte counter compared before/after. Non-trivial = a fault was applied; distinct by digest of (protocol, level, faulted bytes, schedule, leg).",
        _ => "",
    }
}

pub fn write_evidence(cfg: &RunCfg, agg: &Agg, distinct: usize, scheds: usize, states: usize, wall: f64, violations: usize, known: &[String]) {
    let fired: BTreeMap<&String, &u64> = agg.counters.iter().filter(|(k, _)| k.starts_with("fired.") || k.starts_with("fault.")).collect();
    let probes: BTreeMap<&String, &u64> = agg.counters.iter().filter(|(k, _)| k.starts_with("probe.")).collect();
    let zero_probe_note = String::new();
    let per_hour = if wall > 0.0 { (agg.evaluations as f64 / wall * 3600.0) as u64 } else { 0 };
    let ev = json!({
        "property_id": cfg.prop,
        "tier": if cfg.tier == Tier::Quick { "quick" } else { "thorough" },
        "seed": cfg.seed,
        "level": level_for(&cfg.prop),
        "wall_s": wall,
        "violations": violations,
        "coverage": {
            "evaluations": agg.evaluations,
            "distinct_nontrivial": distinct,
            "rule": rule_for(&cfg.prop),
            "samples": agg.samples,
            "exhaustive": false,
            "units": agg.units,
            "units_requested": cfg.units,
            "workers": cfg.workers,
            "runs_per_hour": per_hour,
            "distinct_delivery_schedules": scheds,
            "distinct_outcome_states": states,
            "simulated_polls": agg.counters.get("sim.polls").copied().unwrap_or(0),
            "simulated_ticks": agg.counters.get("sim.ticks").copied().unwrap_or(0),
            "faults_fired": fired,
            "probes": probes,
            "counters": agg.counters,
            "worker_deaths": agg.deaths,
            "known_findings_matched": known,
            "components": {
                "real": ["pilota thrift runtime (binary, binary_le, compact, unchecked skipper)", "code emitted by the real pilota-build for the corpus IDL (plain and keep_unknown_fields)", "tokio AsyncReadExt combinators", "bytes"],
                "simulated": ["byte stream (SimStream)", "executor and tick clock", "allocator accounting/cap wrapper over System", "reference encoders and value generators"],
            },
            "explanation": format!("seeded search, not exhaustive; counts are lower bounds if a worker died between checkpoints.{}", zero_probe_note),
        },
        "assumptions": [
            "optimised build with overflow checks ON (an arithmetic overflow on hostile input is a panic in the repository's dev/test profile and is reported as one); debug-assertions off",
            "decoders run on a 2 MiB stack",
            "single-task executor: a deferred wake is indistinguishable from an immediate one for the future under test",
        ],
    });
    let edir = cfg.evidence_dir.clone().unwrap_or_else(|| format!("{}/evidence", cfg.verif_dir));
    let p = format!("{}/{}.json", edir, cfg.prop);
    let _ = std::fs::create_dir_all(&edir);
    std::fs::write(&p, serde_json::to_string_pretty(&ev).unwrap()).expect("write evidence");
}
