// The Thrift corpus as a schema table. This file is the single source of truth:
// build.rs prints the .thrift text from it and hands that to the real
// pilota_build::Builder from /repo; the simulator generates wire values from
// the same table. (Included by both build.rs and the crate; std only.)

#[derive(Clone, Debug, PartialEq)]
pub enum Ty {
    Bool,
    I8,
    I16,
    I32,
    I64,
    Double,
    String,
    Binary,
    Uuid,
    List(Box<Ty>),
    Set(Box<Ty>),
    Map(Box<Ty>, Box<Ty>),
    /// struct / union / exception by name
    Struct(&'static str),
    Enum(&'static str),
    /// typedef: (name, underlying type)
    Alias(&'static str, Box<Ty>),
}

#[derive(Clone, Copy, Debug, PartialEq)]
pub enum Req {
    Required,
    Optional,
    Default,
}

#[derive(Clone, Debug)]
pub struct Field {
    pub id: i16,
    pub name: String,
    pub ty: Ty,
    pub req: Req,
    pub ann: &'static str,
    pub default: Option<&'static str>,
}

#[derive(Clone, Copy, Debug, PartialEq)]
pub enum Kind {
    Struct,
    Union,
    Exception,
}

#[derive(Clone, Debug)]
pub struct StructDef {
    pub name: &'static str,
    pub kind: Kind,
    pub fields: Vec<Field>,
}

#[derive(Clone, Debug)]
pub struct EnumDef {
    pub name: &'static str,
    pub variants: Vec<(&'static str, i32)>,
}

#[derive(Clone, Debug)]
pub struct Method {
    pub name: &'static str,
    pub ret: Option<Ty>,
    pub args: Vec<Field>,
    pub throws: Vec<Field>,
}

#[derive(Clone, Debug, Default)]
pub struct Corpus {
    pub typedefs: Vec<(&'static str, Ty, &'static str)>,
    pub enums: Vec<EnumDef>,
    pub structs: Vec<StructDef>,
    pub service: Vec<Method>,
}

fn l(t: Ty) -> Ty {
    Ty::List(Box::new(t))
}
fn s(t: Ty) -> Ty {
    Ty::Set(Box::new(t))
}
fn m(k: Ty, v: Ty) -> Ty {
    Ty::Map(Box::new(k), Box::new(v))
}
fn st(n: &'static str) -> Ty {
    Ty::Struct(n)
}
fn al(n: &'static str, t: Ty) -> Ty {
    Ty::Alias(n, Box::new(t))
}

struct FB {
    v: Vec<Field>,
}
impl FB {
    fn new() -> Self {
        FB { v: vec![] }
    }
    fn f(mut self, id: i16, ty: Ty, req: Req) -> Self {
        let name = format!("f{}", if id < 0 { format!("n{}", -(id as i32)) } else { id.to_string() });
        self.v.push(Field { id, name, ty, req, ann: "", default: None });
        self
    }
    fn fa(mut self, id: i16, ty: Ty, req: Req, ann: &'static str) -> Self {
        let name = format!("f{}", id);
        self.v.push(Field { id, name, ty, req, ann, default: None });
        self
    }
    fn fd(mut self, id: i16, ty: Ty, req: Req, default: &'static str) -> Self {
        let name = format!("f{}", id);
        self.v.push(Field { id, name, ty, req, ann: "", default: Some(default) });
        self
    }
    fn done(self) -> Vec<Field> {
        self.v
    }
}

pub fn corpus() -> Corpus {
    use Req::*;
    use Ty::*;
    let mut c = Corpus::default();
    c.enums.push(EnumDef { name: "Color", variants: vec![("RED", 0), ("GREEN", 1), ("BLUE", 7)] });
    c.typedefs = vec![
        ("Ts", I64, ""),
        ("Name", String, ""),
        ("LeafList", l(st("Leaf")), ""),
        ("LeafMap", m(String, st("Leaf")), r#"(pilota.rust_type = "btree")"#),
        ("Matrix", l(l(l(I32))), ""),
        ("LeafAlias", st("Leaf"), ""),
    ];

    let sd = |name, kind, fields| StructDef { name, kind, fields };

    // every base type, the three requiredness kinds
    c.structs.push(sd(
        "Scalars",
        Kind::Struct,
        FB::new()
            .f(1, Bool, Required)
            .f(2, I8, Required)
            .f(3, I16, Required)
            .f(4, I32, Required)
            .f(5, I64, Required)
            .f(6, Double, Required)
            .f(7, String, Required)
            .f(8, Binary, Required)
            .f(9, Uuid, Required)
            .f(10, Bool, Optional)
            .f(11, I8, Optional)
            .f(12, I16, Optional)
            .f(13, I32, Optional)
            .f(14, I64, Optional)
            .f(15, Double, Optional)
            .f(16, String, Optional)
            .f(17, Binary, Optional)
            .f(18, Uuid, Optional)
            .f(19, Bool, Default)
            .f(20, I32, Default)
            .f(21, String, Default)
            .f(300, I64, Default)
            .f(32767, Bool, Optional)
            .done(),
    ));
    // small struct, used as an element everywhere
    c.structs.push(sd(
        "Leaf",
        Kind::Struct,
        FB::new().f(1, I32, Default).f(2, String, Optional).f(3, Bool, Optional).done(),
    ));
    // rust_type / wrapper annotations
    c.structs.push(sd(
        "Annot",
        Kind::Struct,
        FB::new()
            .fa(1, String, Required, r#"(pilota.rust_type = "string")"#)
            .fa(2, Binary, Required, r#"(pilota.rust_type = "vec")"#)
            .fa(3, m(I32, l(st("Leaf"))), Required, r#"(pilota.rust_type = "btree", pilota.rust_wrapper_arc = "true")"#)
            .fa(4, s(I32), Optional, r#"(pilota.rust_type = "btree")"#)
            .fa(5, l(l(st("Leaf"))), Optional, r#"(pilota.rust_wrapper_arc = "true")"#)
            .fa(6, String, Optional, r#"(pilota.rust_type = "string")"#)
            .fa(7, Binary, Optional, r#"(pilota.rust_type = "vec")"#)
            .fa(8, m(String, s(I64)), Optional, r#"(pilota.rust_type = "btree")"#)
            .done(),
    ));
    // containers, nested to depth 3
    c.structs.push(sd(
        "Containers",
        Kind::Struct,
        FB::new()
            .f(1, l(Bool), Default)
            .f(2, l(I8), Default)
            .f(3, l(I16), Optional)
            .f(4, l(I32), Required)
            .f(5, l(I64), Optional)
            .f(6, l(Double), Optional)
            .f(7, l(String), Optional)
            .f(8, l(Binary), Optional)
            .f(9, l(l(Binary)), Optional)
            .f(10, l(st("Leaf")), Optional)
            .f(11, s(I32), Optional)
            .f(12, s(String), Optional)
            .f(13, m(I32, String), Optional)
            .f(14, m(String, st("Leaf")), Optional)
            .f(15, m(I64, l(s(I16))), Optional)
            .f(16, l(m(String, l(I32))), Optional)
            .f(17, m(Bool, Bool), Optional)
            .f(18, l(Enum("Color")), Optional)
            .f(19, m(Enum("Color"), I64), Optional)
            .f(20, s(st("Leaf")), Optional)
            .f(21, m(I8, Double), Optional)
            .f(22, s(Double), Optional)
            .f(23, m(Double, String), Optional)
            .f(24, m(Binary, I32), Optional)
            .f(25, m(st("Leaf"), I32), Optional)
            .f(26, l(l(l(I32))), Optional)
            .f(27, m(String, s(st("Leaf"))), Optional)
            .f(28, l(Bool), Required)
            .done(),
    ));
    c.structs.push(sd(
        "Defaults",
        Kind::Struct,
        FB::new()
            .fd(1, String, Required, r#""hello world""#)
            .fd(2, Bool, Optional, "false")
            .fd(3, Enum("Color"), Optional, "Color.GREEN")
            .fd(4, I8, Optional, "5")
            .fd(5, m(String, String), Optional, r#"{"hello": "world"}"#)
            .fd(6, Double, Optional, "1.5")
            .fd(7, Binary, Required, r#""""#)
            .fd(8, l(I32), Default, "[1, 2, 3]")
            .fd(9, I64, Default, "-77")
            .done(),
    ));
    c.structs.push(sd(
        "Choice",
        Kind::Union,
        FB::new()
            .f(1, String, Default)
            .f(2, Binary, Default)
            .f(3, I32, Default)
            .f(4, st("Leaf"), Default)
            .f(5, l(I64), Default)
            .f(6, Bool, Default)
            .f(7, Uuid, Default)
            .f(8, l(Bool), Default)
            .f(9, m(String, st("Leaf")), Default)
            .f(10, s(I32), Default)
            .f(11, Double, Default)
            .f(12, Enum("Color"), Default)
            .f(300, I64, Default)
            .done(),
    ));
    c.structs.push(sd(
        "Typed",
        Kind::Struct,
        FB::new()
            .f(1, al("Ts", I64), Required)
            .f(2, al("Name", String), Optional)
            .f(3, al("LeafList", l(st("Leaf"))), Optional)
            .f(4, al("LeafMap", m(String, st("Leaf"))), Optional)
            .f(5, al("Matrix", l(l(l(I32)))), Optional)
            .f(6, al("LeafAlias", st("Leaf")), Optional)
            .f(7, l(al("Ts", I64)), Optional)
            .f(8, m(al("Name", String), al("LeafAlias", st("Leaf"))), Optional)
            .done(),
    ));
    c.structs.push(sd("Nothing", Kind::Union, vec![]));
    c.structs.push(sd("Unit", Kind::Struct, vec![]));
    c.structs.push(sd(
        "Oops",
        Kind::Exception,
        FB::new().f(1, String, Default).f(2, I32, Optional).f(3, st("Leaf"), Optional).done(),
    ));
    // recursion: self and mutual
    c.structs.push(sd(
        "Tree",
        Kind::Struct,
        FB::new()
            .f(1, I32, Default)
            .f(2, st("Tree"), Optional)
            .f(3, l(st("Tree")), Optional)
            .f(4, st("Forest"), Optional)
            .f(5, Bool, Optional)
            .done(),
    ));
    c.structs.push(sd(
        "Forest",
        Kind::Struct,
        FB::new().f(1, st("Tree"), Optional).f(2, m(String, st("Tree")), Optional).f(3, I16, Default).done(),
    ));
    // recursion through required and default-requiredness links (boxed without an Option), closed by a union
    c.structs.push(sd(
        "Expr",
        Kind::Union,
        FB::new().f(1, st("BinaryOp"), Optional).f(2, I64, Optional).f(3, String, Optional).f(4, st("UnaryOp"), Optional).f(5, l(st("Expr")), Optional).done(),
    ));
    c.structs.push(sd("BinaryOp", Kind::Struct, FB::new().f(1, String, Required).f(2, st("Expr"), Required).f(3, st("Expr"), Default).done()));
    c.structs.push(sd("UnaryOp", Kind::Struct, FB::new().f(1, st("Expr"), Default).f(2, st("Expr"), Optional).f(3, I32, Required).done()));
    // everything together, sibling fields after nested structs, odd ids
    c.structs.push(sd(
        "Outer",
        Kind::Struct,
        FB::new()
            .f(1, st("Scalars"), Optional)
            .f(2, Bool, Default)
            .f(3, st("Leaf"), Required)
            .f(4, I32, Required)
            .f(5, st("Choice"), Optional)
            .f(6, Enum("Color"), Default)
            .f(7, st("Containers"), Optional)
            .f(8, Bool, Optional)
            .f(40, st("Annot"), Optional)
            .f(41, st("Defaults"), Optional)
            .f(42, st("Nothing"), Optional)
            .f(255, st("Unit"), Optional)
            .f(256, Uuid, Optional)
            .f(1000, l(st("Choice")), Optional)
            .f(1001, st("Typed"), Optional)
            .done(),
    ));

    c.service = vec![
        Method { name: "ping", ret: None, args: vec![], throws: vec![] },
        Method {
            name: "echo",
            ret: Some(st("Outer")),
            args: FB::new().f(1, st("Outer"), Default).f(2, Bool, Default).f(3, l(String), Default).done(),
            throws: FB::new().f(1, st("Oops"), Default).done(),
        },
        Method { name: "count", ret: Some(I64), args: FB::new().f(1, m(String, I32), Default).done(), throws: vec![] },
        Method { name: "flag", ret: Some(Bool), args: FB::new().f(1, Bool, Default).done(), throws: vec![] },
    ];
    c
}

fn ty_text(t: &Ty) -> String {
    match t {
        Ty::Bool => "bool".into(),
        Ty::I8 => "i8".into(),
        Ty::I16 => "i16".into(),
        Ty::I32 => "i32".into(),
        Ty::I64 => "i64".into(),
        Ty::Double => "double".into(),
        Ty::String => "string".into(),
        Ty::Binary => "binary".into(),
        Ty::Uuid => "uuid".into(),
        Ty::List(e) => format!("list<{}>", ty_text(e)),
        Ty::Set(e) => format!("set<{}>", ty_text(e)),
        Ty::Map(k, v) => format!("map<{}, {}>", ty_text(k), ty_text(v)),
        Ty::Struct(n) | Ty::Enum(n) => n.to_string(),
        Ty::Alias(n, _) => n.to_string(),
    }
}

fn field_text(f: &Field, with_req: bool) -> String {
    let req = if !with_req {
        ""
    } else {
        match f.req {
            Req::Required => "required ",
            Req::Optional => "optional ",
            Req::Default => "",
        }
    };
    let def = f.default.map(|d| format!(" = {}", d)).unwrap_or_default();
    format!("    {}: {}{} {}{}{},\n", f.id, req, ty_text(&f.ty), f.name, def, f.ann)
}

pub fn print_thrift(c: &Corpus) -> String {
    let mut o = String::new();
    o.push_str("namespace rs corpus\n\n");
    for e in &c.enums {
        o.push_str(&format!("enum {} {{\n", e.name));
        for (n, v) in &e.variants {
            o.push_str(&format!("    {} = {},\n", n, v));
        }
        o.push_str("}\n\n");
    }
    for (n, t, ann) in &c.typedefs {
        o.push_str(&format!("typedef {} {}{}\n", ty_text(t), n, ann));
    }
    o.push('\n');
    for s in &c.structs {
        let kw = match s.kind {
            Kind::Struct => "struct",
            Kind::Union => "union",
            Kind::Exception => "exception",
        };
        o.push_str(&format!("{} {} {{\n", kw, s.name));
        for f in &s.fields {
            o.push_str(&field_text(f, s.kind != Kind::Union));
        }
        o.push_str("}\n\n");
    }
    o.push_str("service Svc {\n");
    for mth in &c.service {
        let ret = mth.ret.as_ref().map(ty_text).unwrap_or_else(|| "void".into());
        o.push_str(&format!("  {} {}(\n", ret, mth.name));
        for a in &mth.args {
            o.push_str(&field_text(a, false));
        }
        o.push_str("  )");
        if !mth.throws.is_empty() {
            o.push_str(" throws (\n");
            for a in &mth.throws {
                o.push_str(&field_text(a, false));
            }
            o.push_str("  )");
        }
        o.push_str(";\n");
    }
    o.push_str("}\n");
    o
}
