// Legs: how real pilota code is driven.
//  * primitive level — a value interpreter that walks the wire through
//    TInputProtocol / TAsyncInputProtocol read_* calls and builds a TV;
//  * generated level — Message::{decode, decode_async} of the types emitted
//    by the real pilota-build for the corpus.

use std::any::Any;
use std::future::Future;
use std::pin::Pin;

use bytes::Bytes;
use pilota::thrift::{
    binary, binary_le, compact, Message, ProtocolExceptionKind, TAsyncInputProtocol, TInputProtocol, TType,
    ThriftException,
};

use crate::refenc::Proto;
use crate::stream::SimStream;
use crate::tval::*;

#[derive(Clone, Debug, PartialEq, Eq)]
pub struct ErrInfo {
    /// "protocol:<Kind>" | "transport:<io kind>" | "application:<n>" | "harness:<what>"
    pub kind: String,
    pub msg: String,
}

pub fn err_info(e: &ThriftException) -> ErrInfo {
    let kind = match e {
        ThriftException::Protocol(p) => format!("protocol:{:?}", p.kind()),
        ThriftException::Transport(t) => format!("transport:{:?}", t.kind()),
        ThriftException::Application(a) => format!("application:{}", a.kind().as_i32()),
    };
    let mut msg = e.message().to_string();
    if msg.len() > 2000 {
        let mut cut = 2000;
        while !msg.is_char_boundary(cut) {
            cut -= 1;
        }
        msg.truncate(cut);
    }
    ErrInfo { kind, msg }
}

pub fn is_depth_limit(e: &ThriftException) -> bool {
    matches!(e, ThriftException::Protocol(p) if p.kind() == ProtocolExceptionKind::DepthLimit)
}

pub fn ttype_of(code: u8) -> Option<TType> {
    TType::try_from(code).ok()
}

/// Harness recursion bound of the value interpreter (harness code must not
/// overflow the stack on hostile input; pilota's own limits are tested through
/// skip() and the generated decoders, not through this interpreter).
pub const INTERP_MAX_DEPTH: usize = 96;

fn harness_err(what: &str) -> ThriftException {
    pilota::thrift::new_protocol_exception(ProtocolExceptionKind::Unknown, format!("harness:{}", what))
}

pub fn is_harness_err(e: &ThriftException) -> bool {
    e.message().starts_with("harness:")
}

// ------------------------------------------------------------ primitive, sync

pub fn read_tv<P: TInputProtocol>(p: &mut P, t: TType, depth: usize) -> Result<TV, ThriftException> {
    if depth > INTERP_MAX_DEPTH {
        return Err(harness_err("interp-depth"));
    }
    Ok(match t {
        TType::Bool => TV::Bool(p.read_bool()?),
        TType::I8 => TV::I8(p.read_i8()?),
        TType::I16 => TV::I16(p.read_i16()?),
        TType::I32 => TV::I32(p.read_i32()?),
        TType::I64 => TV::I64(p.read_i64()?),
        TType::Double => TV::Double(p.read_double()?.to_bits()),
        TType::Binary => {
            // rotate through the four binary-shaped readers, chosen by depth so
            // both legs make the same choice
            match depth % 4 {
                0 => TV::Binary(p.read_bytes()?.to_vec()),
                1 => TV::Binary(p.read_faststr()?.as_bytes().to_vec()),
                2 => TV::Binary(p.read_bytes_vec()?),
                _ => TV::Binary(p.read_string()?.into_bytes()),
            }
        }
        TType::Uuid => TV::Uuid(p.read_uuid()?),
        TType::Struct => {
            p.read_struct_begin()?;
            let mut fs = vec![];
            loop {
                let f = p.read_field_begin()?;
                if f.field_type == TType::Stop {
                    break;
                }
                let v = read_tv(p, f.field_type, depth + 1)?;
                p.read_field_end()?;
                fs.push((f.id.unwrap_or(0), v));
            }
            p.read_struct_end()?;
            TV::Struct(fs)
        }
        TType::List => {
            let id = p.read_list_begin()?;
            let mut xs = vec![];
            for _ in 0..id.size {
                xs.push(read_tv(p, id.element_type, depth + 1)?);
            }
            p.read_list_end()?;
            TV::List(id.element_type as u8, xs)
        }
        TType::Set => {
            let id = p.read_set_begin()?;
            let mut xs = vec![];
            for _ in 0..id.size {
                xs.push(read_tv(p, id.element_type, depth + 1)?);
            }
            p.read_set_end()?;
            TV::Set(id.element_type as u8, xs)
        }
        TType::Map => {
            let id = p.read_map_begin()?;
            let mut kv = vec![];
            for _ in 0..id.size {
                let k = read_tv(p, id.key_type, depth + 1)?;
                let v = read_tv(p, id.value_type, depth + 1)?;
                kv.push((k, v));
            }
            p.read_map_end()?;
            TV::Map(id.key_type as u8, id.value_type as u8, kv)
        }
        TType::Stop | TType::Void => return Err(harness_err("stop-or-void-element")),
    })
}

// ----------------------------------------------------------- primitive, async

pub fn read_tv_async<'a, P: TAsyncInputProtocol + 'a>(
    p: &'a mut P,
    t: TType,
    depth: usize,
) -> Pin<Box<dyn Future<Output = Result<TV, ThriftException>> + Send + 'a>> {
    Box::pin(async move {
        if depth > INTERP_MAX_DEPTH {
            return Err(harness_err("interp-depth"));
        }
        Ok(match t {
            TType::Bool => TV::Bool(p.read_bool().await?),
            TType::I8 => TV::I8(p.read_i8().await?),
            TType::I16 => TV::I16(p.read_i16().await?),
            TType::I32 => TV::I32(p.read_i32().await?),
            TType::I64 => TV::I64(p.read_i64().await?),
            TType::Double => TV::Double(p.read_double().await?.to_bits()),
            TType::Binary => match depth % 4 {
                0 => TV::Binary(p.read_bytes().await?.to_vec()),
                1 => TV::Binary(p.read_faststr().await?.as_bytes().to_vec()),
                2 => TV::Binary(p.read_bytes_vec().await?),
                _ => TV::Binary(p.read_string().await?.into_bytes()),
            },
            TType::Uuid => TV::Uuid(p.read_uuid().await?),
            TType::Struct => {
                p.read_struct_begin().await?;
                let mut fs = vec![];
                loop {
                    let f = p.read_field_begin().await?;
                    if f.field_type == TType::Stop {
                        break;
                    }
                    let v = read_tv_async(p, f.field_type, depth + 1).await?;
                    p.read_field_end().await?;
                    fs.push((f.id.unwrap_or(0), v));
                }
                p.read_struct_end().await?;
                TV::Struct(fs)
            }
            TType::List => {
                let id = p.read_list_begin().await?;
                let mut xs = vec![];
                for _ in 0..id.size {
                    xs.push(read_tv_async(p, id.element_type, depth + 1).await?);
                }
                p.read_list_end().await?;
                TV::List(id.element_type as u8, xs)
            }
            TType::Set => {
                let id = p.read_set_begin().await?;
                let mut xs = vec![];
                for _ in 0..id.size {
                    xs.push(read_tv_async(p, id.element_type, depth + 1).await?);
                }
                p.read_set_end().await?;
                TV::Set(id.element_type as u8, xs)
            }
            TType::Map => {
                let id = p.read_map_begin().await?;
                let mut kv = vec![];
                for _ in 0..id.size {
                    let k = read_tv_async(p, id.key_type, depth + 1).await?;
                    let v = read_tv_async(p, id.value_type, depth + 1).await?;
                    kv.push((k, v));
                }
                p.read_map_end().await?;
                TV::Map(id.key_type as u8, id.value_type as u8, kv)
            }
            TType::Stop | TType::Void => return Err(harness_err("stop-or-void-element")),
        })
    })
}

// -------------------------------------------------- protocol dispatch helpers

/// Run `f` with the in-memory input protocol of `proto` over `buf`.
#[macro_export]
macro_rules! with_mem_proto {
    ($proto:expr, $buf:expr, |$p:ident| $body:expr) => {
        match $proto {
            $crate::refenc::Proto::Binary => {
                let mut $p = pilota::thrift::binary::TBinaryProtocol::new($buf, true);
                $body
            }
            $crate::refenc::Proto::BinaryLE => {
                let mut $p = pilota::thrift::binary_le::TBinaryProtocol::new($buf, true);
                $body
            }
            $crate::refenc::Proto::Compact => {
                let mut $p = pilota::thrift::compact::TCompactInputProtocol::new($buf);
                $body
            }
        }
    };
}

/// Produce a boxed future running `body` with the async protocol of `proto` over `stream`.
#[macro_export]
macro_rules! with_async_proto {
    ($proto:expr, $stream:expr, |$p:ident| $body:expr) => {
        match $proto {
            $crate::refenc::Proto::Binary => {
                let mut $p = pilota::thrift::binary::TAsyncBinaryProtocol::new($stream);
                $body
            }
            $crate::refenc::Proto::BinaryLE => {
                let mut $p = pilota::thrift::binary_le::TAsyncBinaryProtocol::new($stream);
                $body
            }
            $crate::refenc::Proto::Compact => {
                let mut $p = pilota::thrift::compact::TAsyncCompactProtocol::new($stream);
                $body
            }
        }
    };
}

// keep the imports used even if a protocol is only reached through the macros
#[allow(dead_code)]
fn _touch(b: &mut Bytes) {
    let _ = binary::TBinaryProtocol::new(&mut *b, true);
    let _ = binary_le::TBinaryProtocol::new(&mut *b, true);
    let _ = compact::TCompactInputProtocol::new(&mut *b);
}

// ------------------------------------------------------------ generated level

pub trait AnyVal: Any + Send {
    fn eq_dyn(&self, other: &dyn AnyVal) -> bool;
    fn as_any(&self) -> &dyn Any;
    fn debug(&self) -> String;
}

impl<T: PartialEq + Any + Send + std::fmt::Debug> AnyVal for T {
    fn debug(&self) -> String {
        format!("{:?}", self)
    }
    fn eq_dyn(&self, other: &dyn AnyVal) -> bool {
        match other.as_any().downcast_ref::<T>() {
            Some(o) => self == o,
            None => false,
        }
    }
    fn as_any(&self) -> &dyn Any {
        self
    }
}

pub type DynVal = Box<dyn AnyVal>;
pub type AsyncDec<'a> = Pin<Box<dyn Future<Output = crate::eval::AsyncPart> + 'a>>;

pub struct GenType {
    /// name of the emitted Rust type (prefixed keep:: for the keep_unknown_fields copy)
    pub name: &'static str,
    /// name of the schema entry that describes its wire shape
    pub schema: &'static str,
    /// compiled with keep_unknown_fields
    pub keep: bool,
    pub dec_mem: fn(Proto, &mut Bytes, bool, bool) -> crate::eval::GenMem,
    pub dec_async: for<'a> fn(Proto, &'a mut crate::eval::PosStream, bool, bool) -> AsyncDec<'a>,
}

fn dec_async_t<'a, T: Message + PartialEq + std::fmt::Debug + 'static>(proto: Proto, s: &'a mut crate::eval::PosStream, want_trailer: bool, call: bool) -> AsyncDec<'a> {
    Box::pin(crate::eval::gen_dec_async::<T>(proto, s, want_trailer, call))
}

macro_rules! gen_types {
    ($( $name:ident ),* $(,)?) => {
        pub fn gen_types() -> Vec<GenType> {
            let mut v = vec![];
            $(
                v.push(GenType {
                    name: stringify!($name),
                    schema: stringify!($name),
                    keep: false,
                    dec_mem: crate::eval::gen_dec_mem::<crate::gen::corpus_gen::corpus::$name>,
                    dec_async: dec_async_t::<crate::gen::corpus_gen::corpus::$name>,
                });
                v.push(GenType {
                    name: concat!("keep::", stringify!($name)),
                    schema: stringify!($name),
                    keep: true,
                    dec_mem: crate::eval::gen_dec_mem::<crate::gen_keep::corpus_keep_gen::corpus_keep::$name>,
                    dec_async: dec_async_t::<crate::gen_keep::corpus_keep_gen::corpus_keep::$name>,
                });
            )*
            // the runtime's hand-written Message
            v.push(GenType {
                name: "rt::ApplicationException",
                schema: "ApplicationException",
                keep: false,
                dec_mem: crate::eval::gen_dec_mem::<pilota::thrift::ApplicationException>,
                dec_async: dec_async_t::<pilota::thrift::ApplicationException>,
            });
            v
        }
    };
}

gen_types!(
    Scalars, Leaf, Annot, Containers, Defaults, Choice, Typed, Nothing, Unit, Oops, Tree, Forest, Outer, Expr, BinaryOp, UnaryOp,
    SvcPingArgsRecv, SvcPingArgsSend, SvcPingResultRecv, SvcPingResultSend,
    SvcEchoArgsRecv, SvcEchoArgsSend, SvcEchoResultRecv, SvcEchoResultSend, SvcEchoException,
    SvcCountArgsRecv, SvcCountArgsSend, SvcCountResultRecv, SvcCountResultSend,
    SvcFlagArgsRecv, SvcFlagArgsSend, SvcFlagResultRecv, SvcFlagResultSend,
);
