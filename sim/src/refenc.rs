// Reference encoders written from the Apache Thrift binary / compact protocol
// specifications. They share no code with pilota. Each returns the bytes and a
// layout map (byte spans tagged by role) used for targeted corruption and for
// "consumed exactly" checks.

use crate::tval::*;

#[derive(Clone, Copy, Debug, PartialEq, Eq, Hash)]
pub enum Proto {
    Binary,
    BinaryLE,
    Compact,
}

impl Proto {
    pub const ALL: [Proto; 3] = [Proto::Binary, Proto::BinaryLE, Proto::Compact];
    pub fn name(self) -> &'static str {
        match self {
            Proto::Binary => "binary",
            Proto::BinaryLE => "binary_le",
            Proto::Compact => "compact",
        }
    }
    pub fn from_name(s: &str) -> Option<Proto> {
        Proto::ALL.iter().copied().find(|p| p.name() == s)
    }
}

#[derive(Clone, Copy, Debug, PartialEq, Eq, Hash)]
pub enum SpanKind {
    /// byte length of a string / binary
    Len,
    /// element count of a list / set / map
    Count,
    /// a type code (field type, element type, key/value types)
    Type,
    /// a field id (fixed i16 or zigzag varint)
    FieldId,
    /// compact short-form field header: delta and type in one byte
    FieldHdr,
    /// compact short-form collection header: count and type in one byte
    CollHdr,
    /// string / binary payload
    Payload,
    /// struct stop byte
    Stop,
}

#[derive(Clone, Copy, Debug)]
pub struct Span {
    pub start: usize,
    pub end: usize,
    pub kind: SpanKind,
    pub depth: u16,
}

pub struct Enc {
    pub proto: Proto,
    pub out: Vec<u8>,
    pub spans: Vec<Span>,
    /// compact: always use the long field-header form (legal alternative encoding)
    pub long_form: bool,
    /// compact: write some varints wider than necessary (continuation bytes carrying zero bits, never beyond
    /// the width the reader accepts for the type): 0 = never, n = about one varint value in n. Which values
    /// are widened, and by how much, depends on the value alone, so a sub-value encodes the same at any position.
    pub pad: u8,
    last_id: i16,
    stack: Vec<i16>,
    depth: u16,
    pub record_spans: bool,
}

pub fn zigzag32(n: i32) -> u32 {
    ((n << 1) ^ (n >> 31)) as u32
}
pub fn zigzag64(n: i64) -> u64 {
    ((n << 1) ^ (n >> 63)) as u64
}
pub fn put_uvarint(out: &mut Vec<u8>, mut v: u64) {
    loop {
        if v < 0x80 {
            out.push(v as u8);
            return;
        }
        out.push((v as u8 & 0x7f) | 0x80);
        v >>= 7;
    }
}

/// Encoding style of the reference encoder: legal alternatives to the canonical compact encoding.
#[derive(Clone, Copy, Debug, Default)]
pub struct Style {
    pub long_form: bool,
    pub pad: u8,
}

impl Style {
    pub fn new(long_form: bool, padsel: u64) -> Style {
        Style { long_form, pad: match padsel { 0 => 1, 1 => 3, 2 => 7, _ => 0 } }
    }
}

pub fn put_uvarint_padded(out: &mut Vec<u8>, v: u64, max: usize, pad: u8) {
    let start = out.len();
    put_uvarint(out, v);
    if pad == 0 {
        return;
    }
    let natural = out.len() - start;
    let h = (v ^ 0x5851_F42D_4C95_7F2D).wrapping_mul(0x9E37_79B9_7F4A_7C15) >> 40;
    if natural >= max || h % pad as u64 != 0 {
        return;
    }
    let extra = 1 + ((h >> 8) as usize % (max - natural));
    let last = out.len() - 1;
    out[last] |= 0x80;
    for _ in 1..extra {
        out.push(0x80);
    }
    out.push(0x00);
}

fn compact_type(t: u8) -> u8 {
    match t {
        T_STOP => 0,
        T_BOOL => 1,
        T_I8 => 3,
        T_I16 => 4,
        T_I32 => 5,
        T_I64 => 6,
        T_DOUBLE => 7,
        T_BINARY => 8,
        T_LIST => 9,
        T_SET => 10,
        T_MAP => 11,
        T_STRUCT => 12,
        T_UUID => 13,
        _ => 15,
    }
}

impl Enc {
    pub fn new(proto: Proto) -> Self {
        Enc { proto, out: vec![], spans: vec![], long_form: false, pad: 0, last_id: 0, stack: vec![], depth: 0, record_spans: true }
    }

    pub fn style(&mut self, st: Style) {
        self.long_form = st.long_form;
        self.pad = st.pad;
    }

    fn uv(&mut self, v: u64, max: usize) {
        put_uvarint_padded(&mut self.out, v, max, self.pad);
    }

    fn span(&mut self, start: usize, kind: SpanKind) {
        if self.record_spans {
            self.spans.push(Span { start, end: self.out.len(), kind, depth: self.depth });
        }
    }

    fn i16_fixed(&mut self, v: i16) {
        match self.proto {
            Proto::Binary => self.out.extend_from_slice(&v.to_be_bytes()),
            Proto::BinaryLE => self.out.extend_from_slice(&v.to_le_bytes()),
            Proto::Compact => unreachable!(),
        }
    }
    fn i32_fixed(&mut self, v: i32) {
        match self.proto {
            Proto::Binary => self.out.extend_from_slice(&v.to_be_bytes()),
            Proto::BinaryLE => self.out.extend_from_slice(&v.to_le_bytes()),
            Proto::Compact => unreachable!(),
        }
    }
    fn i64_fixed(&mut self, v: i64) {
        match self.proto {
            Proto::Binary => self.out.extend_from_slice(&v.to_be_bytes()),
            Proto::BinaryLE => self.out.extend_from_slice(&v.to_le_bytes()),
            Proto::Compact => unreachable!(),
        }
    }

    /// Message envelope. mtype 1..4.
    pub fn message_begin(&mut self, name: &[u8], mtype: u8, seq: i32) {
        match self.proto {
            Proto::Binary | Proto::BinaryLE => {
                // strict: 0x8001 0x00 <type>, name, seqid
                let v: u32 = 0x8001_0000 | (mtype as u32);
                self.i32_fixed(v as i32);
                let s = self.out.len();
                self.i32_fixed(name.len() as i32);
                self.span(s, SpanKind::Len);
                let s = self.out.len();
                self.out.extend_from_slice(name);
                self.span(s, SpanKind::Payload);
                self.i32_fixed(seq);
            }
            Proto::Compact => {
                self.out.push(0x82);
                self.out.push((mtype << 5) | 1);
                self.uv(seq as u32 as u64, 5);
                let s = self.out.len();
                self.uv(name.len() as u64, 5);
                self.span(s, SpanKind::Len);
                let s = self.out.len();
                self.out.extend_from_slice(name);
                self.span(s, SpanKind::Payload);
            }
        }
    }

    pub fn value(&mut self, v: &TV) {
        match v {
            TV::Bool(b) => match self.proto {
                Proto::Compact => self.out.push(if *b { 1 } else { 2 }),
                _ => self.out.push(*b as u8),
            },
            TV::I8(x) => self.out.push(*x as u8),
            TV::I16(x) => match self.proto {
                Proto::Compact => self.uv(zigzag32(*x as i32) as u64, 3),
                _ => self.i16_fixed(*x),
            },
            TV::I32(x) => match self.proto {
                Proto::Compact => self.uv(zigzag32(*x) as u64, 5),
                _ => self.i32_fixed(*x),
            },
            TV::I64(x) => match self.proto {
                Proto::Compact => self.uv(zigzag64(*x), 10),
                _ => self.i64_fixed(*x),
            },
            TV::Double(bits) => match self.proto {
                Proto::Binary => self.out.extend_from_slice(&bits.to_be_bytes()),
                // compact: little-endian per the specification
                Proto::BinaryLE | Proto::Compact => self.out.extend_from_slice(&bits.to_le_bytes()),
            },
            TV::Binary(b) => {
                let s = self.out.len();
                match self.proto {
                    Proto::Compact => self.uv(b.len() as u64, 5),
                    _ => self.i32_fixed(b.len() as i32),
                }
                self.span(s, SpanKind::Len);
                let s = self.out.len();
                self.out.extend_from_slice(b);
                self.span(s, SpanKind::Payload);
            }
            TV::Uuid(u) => self.out.extend_from_slice(u),
            TV::Struct(fs) => self.struct_(fs),
            TV::List(t, xs) | TV::Set(t, xs) => {
                self.coll_begin(*t, xs.len());
                self.depth += 1;
                for x in xs {
                    self.value(x);
                }
                self.depth -= 1;
            }
            TV::Map(k, vt, kv) => {
                match self.proto {
                    Proto::Compact => {
                        let s = self.out.len();
                        self.uv(kv.len() as u64, 5);
                        self.span(s, SpanKind::Count);
                        if !kv.is_empty() {
                            let s = self.out.len();
                            self.out.push((compact_type(*k) << 4) | compact_type(*vt));
                            self.span(s, SpanKind::Type);
                        }
                    }
                    _ => {
                        let s = self.out.len();
                        self.out.push(*k);
                        self.out.push(*vt);
                        self.span(s, SpanKind::Type);
                        let s = self.out.len();
                        self.i32_fixed(kv.len() as i32);
                        self.span(s, SpanKind::Count);
                    }
                }
                self.depth += 1;
                for (a, b) in kv {
                    self.value(a);
                    self.value(b);
                }
                self.depth -= 1;
            }
        }
    }

    fn coll_begin(&mut self, t: u8, n: usize) {
        match self.proto {
            Proto::Compact => {
                if n < 15 {
                    let s = self.out.len();
                    self.out.push(((n as u8) << 4) | compact_type(t));
                    self.span(s, SpanKind::CollHdr);
                } else {
                    let s = self.out.len();
                    self.out.push(0xF0 | compact_type(t));
                    self.span(s, SpanKind::Type);
                    let s = self.out.len();
                    self.uv(n as u64, 5);
                    self.span(s, SpanKind::Count);
                }
            }
            _ => {
                let s = self.out.len();
                self.out.push(t);
                self.span(s, SpanKind::Type);
                let s = self.out.len();
                self.i32_fixed(n as i32);
                self.span(s, SpanKind::Count);
            }
        }
    }

    pub fn struct_(&mut self, fs: &[(i16, TV)]) {
        self.stack.push(self.last_id);
        self.last_id = 0;
        self.depth += 1;
        for (id, v) in fs {
            self.field(*id, v);
        }
        let s = self.out.len();
        self.out.push(0);
        self.span(s, SpanKind::Stop);
        self.depth -= 1;
        self.last_id = self.stack.pop().unwrap();
    }

    fn field(&mut self, id: i16, v: &TV) {
        match self.proto {
            Proto::Compact => {
                let ct = match v {
                    TV::Bool(true) => 1,
                    TV::Bool(false) => 2,
                    _ => compact_type(v.ttype()),
                };
                let delta = id as i32 - self.last_id as i32;
                if !self.long_form && delta > 0 && delta <= 15 {
                    let s = self.out.len();
                    self.out.push(((delta as u8) << 4) | ct);
                    self.span(s, SpanKind::FieldHdr);
                } else {
                    let s = self.out.len();
                    self.out.push(ct);
                    self.span(s, SpanKind::Type);
                    let s = self.out.len();
                    self.uv(zigzag32(id as i32) as u64, 3);
                    self.span(s, SpanKind::FieldId);
                }
                self.last_id = id;
                if !matches!(v, TV::Bool(_)) {
                    self.value(v);
                }
            }
            _ => {
                let s = self.out.len();
                self.out.push(v.ttype());
                self.span(s, SpanKind::Type);
                let s = self.out.len();
                self.i16_fixed(id);
                self.span(s, SpanKind::FieldId);
                self.value(v);
            }
        }
    }
}

pub fn encode_value(proto: Proto, v: &TV, long_form: Style) -> Enc {
    let mut e = Enc::new(proto);
    e.style(long_form);
    e.value(v);
    e
}

/// Encode a value without recording spans (cheap length computation).
pub fn encoded_len(proto: Proto, v: &TV, long_form: Style) -> usize {
    let mut e = Enc::new(proto);
    e.style(long_form);
    e.record_spans = false;
    e.value(v);
    e.out.len()
}

/// Replace a Len/Count span with `val` encoded the way this protocol encodes
/// lengths (fixed i32 in its byte order, or unsigned varint of the 32-bit
/// pattern). Compact one-byte collection headers are widened to the long form.
pub fn overwrite_span(proto: Proto, bytes: &[u8], sp: &Span, val: i64) -> Vec<u8> {
    let mut out = Vec::with_capacity(bytes.len() + 8);
    out.extend_from_slice(&bytes[..sp.start]);
    match (proto, sp.kind) {
        (Proto::Compact, SpanKind::CollHdr) => {
            let t = bytes[sp.start] & 0x0F;
            out.push(0xF0 | t);
            put_uvarint(&mut out, val as u32 as u64);
        }
        (Proto::Compact, SpanKind::FieldId) => put_uvarint(&mut out, zigzag32(val as i32) as u64),
        (Proto::Compact, _) => put_uvarint(&mut out, val as u32 as u64),
        (Proto::Binary, SpanKind::FieldId) => out.extend_from_slice(&(val as i16).to_be_bytes()),
        (Proto::BinaryLE, SpanKind::FieldId) => out.extend_from_slice(&(val as i16).to_le_bytes()),
        (Proto::Binary, _) => out.extend_from_slice(&(val as i32).to_be_bytes()),
        (Proto::BinaryLE, _) => out.extend_from_slice(&(val as i32).to_le_bytes()),
    }
    out.extend_from_slice(&bytes[sp.end..]);
    out
}
