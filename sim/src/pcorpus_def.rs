// Protobuf corpus as a schema table: printed to .proto by build.rs (compiled by
// the real pilota-build) and used by the simulator to generate wire values.
// (Included by build.rs and the crate; std only.)

#[derive(Clone, Debug, PartialEq)]
pub enum PK {
    Int32,
    Int64,
    Uint32,
    Uint64,
    Sint32,
    Sint64,
    Bool,
    Fixed32,
    Fixed64,
    Sfixed32,
    Sfixed64,
    Float,
    Double,
    String,
    Bytes,
    Enum(&'static str),
    Msg(&'static str),
}

#[derive(Clone, Debug, PartialEq)]
pub enum PL {
    Single,
    Optional,
    Repeated,
    /// repeated scalar with [packed = false]
    RepeatedUnpacked,
    /// repeated scalar with [packed = true] (proto2 file only)
    Packed,
    /// map<key kind, field kind>
    Map(PK),
    Oneof(&'static str),
}

#[derive(Clone, Debug)]
pub struct PF {
    pub tag: u32,
    pub name: String,
    pub kind: PK,
    pub label: PL,
}

#[derive(Clone, Debug)]
pub struct PMsg {
    pub name: &'static str,
    pub fields: Vec<PF>,
}

#[derive(Clone, Debug, Default)]
pub struct PCorpus {
    pub enums: Vec<(&'static str, Vec<(&'static str, i32)>)>,
    pub msgs: Vec<PMsg>,
}

fn f(tag: u32, kind: PK, label: PL) -> PF {
    PF { tag, name: format!("f{}", tag), kind, label }
}

pub fn pcorpus() -> PCorpus {
    use PK::*;
    use PL::*;
    let mut c = PCorpus::default();
    c.enums.push(("Kind", vec![("KIND_ZERO", 0), ("KIND_ONE", 1), ("KIND_NINE", 9)]));
    let scalars = [Int32, Int64, Uint32, Uint64, Sint32, Sint64, Bool, Fixed32, Fixed64, Sfixed32, Sfixed64, Float, Double, String, Bytes, Enum("Kind")];
    // every scalar kind: singular, optional, repeated (packed where possible), unpacked
    let mut all = vec![];
    let mut tag = 1;
    for k in scalars.iter() {
        all.push(f(tag, k.clone(), Single));
        tag += 1;
    }
    for k in scalars.iter() {
        all.push(f(tag, k.clone(), Optional));
        tag += 1;
    }
    for k in scalars.iter() {
        all.push(f(tag, k.clone(), Repeated));
        tag += 1;
    }
    for k in scalars.iter() {
        if !matches!(k, String | Bytes) {
            all.push(f(tag, k.clone(), RepeatedUnpacked));
            tag += 1;
        }
    }
    c.msgs.push(PMsg { name: "AllScalars", fields: all });

    c.msgs.push(PMsg { name: "Small", fields: vec![f(1, Int32, Single), f(2, String, Single), f(3, Bool, Optional)] });

    // maps: every legal key kind, several value kinds
    let mut maps = vec![];
    let mut tag = 1;
    for k in [Int32, Int64, Uint32, Uint64, Sint32, Sint64, Bool, Fixed32, Fixed64, Sfixed32, Sfixed64, String] {
        maps.push(f(tag, String, Map(k.clone())));
        tag += 1;
        maps.push(f(tag, Msg("Small"), Map(k.clone())));
        tag += 1;
    }
    for v in [Int32, Sint64, Fixed32, Double, Bytes, Enum("Kind"), Bool] {
        maps.push(f(tag, v, Map(String)));
        tag += 1;
    }
    c.msgs.push(PMsg { name: "Maps", fields: maps });

    c.msgs.push(PMsg {
        name: "Choice",
        fields: vec![
            f(1, Int32, Single),
            f(2, String, Oneof("pick")),
            f(3, Int64, Oneof("pick")),
            f(4, Msg("Small"), Oneof("pick")),
            f(5, Bytes, Oneof("pick")),
            f(6, Bool, Oneof("pick")),
            f(7, Enum("Kind"), Oneof("pick")),
            f(8, Double, Oneof("other")),
            f(9, Sint32, Oneof("other")),
            f(10, Fixed64, Oneof("other")),
        ],
    });

    // declaration order and field numbers disagree: fields and oneof members numbered out of order
    c.msgs.push(PMsg {
        name: "Scrambled",
        fields: vec![
            f(7, Int32, Single),
            f(2, String, Oneof("payload")),
            f(9, Bytes, Oneof("payload")),
            f(4, Int32, Oneof("payload")),
            // (field number 3, inside the members' range, is deliberately not declared)
            f(6, String, Single),
            f(12, Msg("Small"), Oneof("second")),
            f(10, Int64, Oneof("second")),
            f(11, Bool, Oneof("second")),
            f(1, Fixed64, Repeated),
            f(5, Msg("Small"), Optional),
        ],
    });
    // recursion: direct, through repeated, through map values, mutual
    c.msgs.push(PMsg {
        name: "Node",
        fields: vec![
            f(1, Msg("Node"), Optional),
            f(2, Msg("Node"), Repeated),
            f(3, Msg("Node"), Map(String)),
            f(4, Int32, Single),
            f(5, Msg("Peer"), Optional),
            f(6, String, Repeated),
            // repeated scalars inside the recursive message: packed runs at any nesting depth
            f(7, Int64, Repeated),
            f(8, Fixed32, Repeated),
            f(9, Enum("Kind"), Repeated),
            f(10, Sint32, RepeatedUnpacked),
            f(11, Double, Repeated),
        ],
    });
    c.msgs.push(PMsg { name: "Peer", fields: vec![f(1, Msg("Node"), Optional), f(2, Bytes, Single)] });

    // nested declarations: message types and an enum declared inside a message, two levels
    c.msgs.push(PMsg {
        name: "Holder",
        fields: vec![
            f(1, Msg("Holder.Inner"), Optional),
            f(2, Msg("Holder.Inner"), Repeated),
            f(3, Msg("Holder.Other"), Optional),
            f(4, Msg("Holder.Inner.Deep"), Map(String)),
            f(5, Msg("Holder.Inner.Deep"), Oneof("sel")),
            f(6, Msg("Holder.Other"), Oneof("sel")),
            f(7, Int32, Single),
        ],
    });
    c.msgs.push(PMsg { name: "Holder.Inner", fields: vec![f(1, Int64, Single), f(2, Msg("Holder.Inner.Deep"), Optional), f(3, String, Repeated), f(4, Msg("Holder"), Optional)] });
    c.msgs.push(PMsg { name: "Holder.Inner.Deep", fields: vec![f(1, Bytes, Single), f(2, Sint32, Repeated), f(3, Msg("Holder.Other"), Optional)] });
    c.msgs.push(PMsg { name: "Holder.Other", fields: vec![f(1, Double, Single), f(2, String, Map(Int32))] });

    c.msgs.push(PMsg {
        name: "Envelope",
        fields: vec![
            f(1, Msg("AllScalars"), Optional),
            f(2, Msg("Maps"), Optional),
            f(3, Msg("Choice"), Repeated),
            f(4, Msg("Node"), Optional),
            f(5, Msg("Small"), Repeated),
            f(6, Msg("Holder"), Optional),
            f(15, String, Single),
            f(16, Bytes, Single),
            f(2047, Int64, Single),
            f(536870911, Uint32, Optional),
        ],
    });
    proto2_part(&mut c);
    c
}

/// Messages of the proto2 file (names start with "P2"): required and optional
/// fields of every scalar kind, a required message field (decoded in place
/// rather than through an Option), repeated fields that are unpacked by default
/// and packed by option, an enum without a zero value.
fn proto2_part(c: &mut PCorpus) {
    use PK::*;
    use PL::*;
    c.enums.push(("P2Kind", vec![("P2_ONE", 1), ("P2_FIVE", 5), ("P2_NEG", -3)]));
    let scalars = [Int32, Int64, Uint32, Uint64, Sint32, Sint64, Bool, Fixed32, Fixed64, Sfixed32, Sfixed64, Float, Double, String, Bytes, Enum("P2Kind")];
    c.msgs.push(PMsg { name: "P2Small", fields: vec![f(1, Int32, Single), f(2, String, Optional), f(3, Bytes, Single)] });
    let mut req = vec![];
    let mut tag = 1;
    for k in scalars.iter() {
        req.push(f(tag, k.clone(), Single));
        tag += 1;
    }
    req.push(f(tag, Msg("P2Small"), Single));
    c.msgs.push(PMsg { name: "P2Req", fields: req });
    let mut opt = vec![];
    let mut tag = 1;
    for k in scalars.iter() {
        opt.push(f(tag, k.clone(), Optional));
        tag += 1;
    }
    for k in scalars.iter() {
        opt.push(f(tag, k.clone(), Repeated));
        tag += 1;
    }
    for k in scalars.iter() {
        if !matches!(k, String | Bytes) {
            opt.push(f(tag, k.clone(), Packed));
            tag += 1;
        }
    }
    opt.push(f(tag, Msg("P2Small"), Optional));
    opt.push(f(tag + 1, Msg("P2Small"), Repeated));
    opt.push(f(tag + 2, Msg("P2Small"), Map(Int32)));
    opt.push(f(tag + 3, Enum("P2Kind"), Map(String)));
    opt.push(f(tag + 4, Msg("P2Req"), Oneof("which")));
    opt.push(f(tag + 5, Enum("P2Kind"), Oneof("which")));
    opt.push(f(tag + 6, Sfixed32, Oneof("which")));
    c.msgs.push(PMsg { name: "P2Opt", fields: opt });
    c.msgs.push(PMsg {
        name: "P2Rec",
        fields: vec![f(1, Msg("P2Rec"), Optional), f(2, Msg("P2Small"), Single), f(3, Msg("P2Rec"), Repeated), f(4, Msg("P2Opt"), Optional), f(5, Sint64, Single)],
    });
}

fn is_proto2(name: &str) -> bool {
    name.starts_with("P2")
}

fn kind_text(k: &PK) -> String {
    match k {
        PK::Int32 => "int32".into(),
        PK::Int64 => "int64".into(),
        PK::Uint32 => "uint32".into(),
        PK::Uint64 => "uint64".into(),
        PK::Sint32 => "sint32".into(),
        PK::Sint64 => "sint64".into(),
        PK::Bool => "bool".into(),
        PK::Fixed32 => "fixed32".into(),
        PK::Fixed64 => "fixed64".into(),
        PK::Sfixed32 => "sfixed32".into(),
        PK::Sfixed64 => "sfixed64".into(),
        PK::Float => "float".into(),
        PK::Double => "double".into(),
        PK::String => "string".into(),
        PK::Bytes => "bytes".into(),
        PK::Enum(n) | PK::Msg(n) => n.to_string(),
    }
}

pub fn print_proto(c: &PCorpus) -> String {
    let mut o = String::from("syntax = \"proto3\";\npackage pcorpus;\n\n");
    print_file(c, false, &mut o);
    o
}

pub fn print_proto2(c: &PCorpus) -> String {
    let mut o = String::from("syntax = \"proto2\";\npackage pcorpus2;\n\n");
    print_file(c, true, &mut o);
    o
}

fn print_file(c: &PCorpus, proto2: bool, o: &mut String) {
    for (n, vs) in c.enums.iter().filter(|(n, _)| is_proto2(n) == proto2) {
        o.push_str(&format!("enum {} {{\n", n));
        for (vn, v) in vs {
            o.push_str(&format!("  {} = {};\n", vn, v));
        }
        o.push_str("}\n\n");
    }
    for m in c.msgs.iter().filter(|m| !m.name.contains('.') && is_proto2(m.name) == proto2) {
        print_msg(c, m, 0, o);
        o.push('\n');
    }
}

fn print_msg(c: &PCorpus, m: &PMsg, indent: usize, o: &mut String) {
    let pad = "  ".repeat(indent);
    let short = m.name.rsplit('.').next().unwrap();
    o.push_str(&format!("{}message {} {{\n", pad, short));
    // children: qualified names with exactly one more segment
    let prefix = format!("{}.", m.name);
    for ch in c.msgs.iter().filter(|x| x.name.starts_with(&prefix) && !x.name[prefix.len()..].contains('.')) {
        print_msg(c, ch, indent + 1, o);
    }
    let mut oneofs: Vec<&'static str> = vec![];
    for fl in &m.fields {
        match &fl.label {
            PL::Oneof(g) => {
                if !oneofs.contains(g) {
                    oneofs.push(g);
                }
            }
            PL::Single if is_proto2(m.name) => o.push_str(&format!("{}  required {} {} = {};\n", pad, kind_text(&fl.kind), fl.name, fl.tag)),
            PL::Single => o.push_str(&format!("{}  {} {} = {};\n", pad, kind_text(&fl.kind), fl.name, fl.tag)),
            PL::Packed => o.push_str(&format!("{}  repeated {} {} = {} [packed = true];\n", pad, kind_text(&fl.kind), fl.name, fl.tag)),
            PL::Optional => o.push_str(&format!("{}  optional {} {} = {};\n", pad, kind_text(&fl.kind), fl.name, fl.tag)),
            PL::Repeated => o.push_str(&format!("{}  repeated {} {} = {};\n", pad, kind_text(&fl.kind), fl.name, fl.tag)),
            PL::RepeatedUnpacked => o.push_str(&format!("{}  repeated {} {} = {} [packed = false];\n", pad, kind_text(&fl.kind), fl.name, fl.tag)),
            PL::Map(k) => o.push_str(&format!("{}  map<{}, {}> {} = {};\n", pad, kind_text(k), kind_text(&fl.kind), fl.name, fl.tag)),
        }
    }
    for g in oneofs {
        o.push_str(&format!("{}  oneof {} {{\n", pad, g));
        for fl in &m.fields {
            if fl.label == PL::Oneof(g) {
                o.push_str(&format!("{}    {} {} = {};\n", pad, kind_text(&fl.kind), fl.name, fl.tag));
            }
        }
        o.push_str(&format!("{}  }}\n", pad));
    }
    o.push_str(&format!("{}}}\n", pad));
}
