// Prints the corpus IDL from the schema table and compiles it with the real
// pilota_build::Builder taken from /repo's working tree.
#[path = "src/corpus_def.rs"]
mod corpus_def;
#[path = "src/pcorpus_def.rs"]
mod pcorpus_def;

use std::path::PathBuf;

fn main() {
    println!("cargo:rerun-if-changed=src/corpus_def.rs");
    println!("cargo:rerun-if-changed=src/pcorpus_def.rs");
    println!("cargo:rerun-if-changed=build.rs");
    println!("cargo:rerun-if-changed=proto");
    println!("cargo:rustc-check-cfg=cfg(pilota_verif)");
    let out = PathBuf::from(std::env::var("OUT_DIR").unwrap());
    let idl_dir = out.join("idl");
    std::fs::create_dir_all(&idl_dir).unwrap();

    let c = corpus_def::corpus();
    let text = corpus_def::print_thrift(&c);
    let plain = idl_dir.join("corpus.thrift");
    std::fs::write(&plain, &text).unwrap();
    // second copy, compiled with keep_unknown_fields
    let keep = idl_dir.join("corpus_keep.thrift");
    std::fs::write(&keep, text.replace("namespace rs corpus", "namespace rs corpus_keep")).unwrap();

    // rustfmt is not needed for include!d code
    unsafe { std::env::set_var("RUSTFMT", "/bin/true") };

    pilota_build::Builder::thrift()
        .ignore_unused(false)
        .include_dirs(vec![idl_dir.clone()])
        .compile_with_config(
            vec![pilota_build::IdlService::from_path(plain.clone())],
            pilota_build::Output::File(out.join("corpus_gen.rs")),
        );
    pilota_build::Builder::thrift()
        .ignore_unused(false)
        .keep_unknown_fields(vec![keep.clone()])
        .include_dirs(vec![idl_dir.clone()])
        .compile_with_config(
            vec![pilota_build::IdlService::from_path(keep.clone())],
            pilota_build::Output::File(out.join("corpus_keep_gen.rs")),
        );

    // protobuf corpus
    let pc = pcorpus_def::pcorpus();
    let ptext = pcorpus_def::print_proto(&pc);
    let pfile = idl_dir.join("pcorpus.proto");
    std::fs::write(&pfile, &ptext).unwrap();
    pilota_build::Builder::protobuf()
        .ignore_unused(false)
        .include_dirs(vec![idl_dir.clone()])
        .compile_with_config(
            vec![pilota_build::IdlService::from_path(pfile.clone())],
            pilota_build::Output::File(out.join("pcorpus_gen.rs")),
        );
    // proto2 part of the protobuf corpus
    let p2text = pcorpus_def::print_proto2(&pc);
    let p2file = idl_dir.join("pcorpus2.proto");
    std::fs::write(&p2file, &p2text).unwrap();
    pilota_build::Builder::protobuf()
        .ignore_unused(false)
        .include_dirs(vec![idl_dir.clone()])
        .compile_with_config(
            vec![pilota_build::IdlService::from_path(p2file.clone())],
            pilota_build::Output::File(out.join("pcorpus2_gen.rs")),
        );
}
