#!/bin/bash
# run_seeded.sh <seeded dir name> <property> [tier]  — apply a seeded change to /repo, run the check, undo it.
set -u
d=/verif/seeded/$1; prop=$2; tier=${3:-quick}
[ -f "$d/patch.diff" ] || { echo "no such seeded change: $d"; exit 2; }
if [ -n "$(git -C /repo status --porcelain)" ]; then echo "/repo is not clean"; exit 2; fi
git -C /repo apply "$d/patch.diff" || exit 2
# undo the change and rebuild, so that no binary with the seeded change compiled in is left behind
# (NO_REBUILD=1: the caller rebuilds once at the end of a series)
trap 'git -C /repo checkout -- . ; [ -n "${NO_REBUILD:-}" ] || (cd /verif && cargo build --release --offline >/dev/null 2>&1)' EXIT
cd /verif && ./check "$prop" "$tier" > /verif/target/seeded-$1-$prop.log 2>&1
rc=$?
grep -E "^(VIOLATION|violation|OK|property=|harness)" /verif/target/seeded-$1-$prop.log | cut -c1-400 | head -12
echo "exit=$rc"
exit $rc
