// gen-sim (engine B, property C17): the system under test is a whole
// pilota-build process. One run = (corpus, mode, hash seed, worker count, gate
// seed) -> a file tree, and is a pure function of those integers and the code:
//  * per-process hash seeds come from an LD_PRELOAD getrandom shim (VERIF_HASH_SEED),
//  * ASLR is switched off (setarch -R) because ahash mixes in a static's address,
//  * the worker count is RAYON_NUM_THREADS,
//  * the order in which per-module / per-crate jobs run is decided by the job
//    gate compiled into pilota-build with --cfg pilota_verif (VERIF_GATE_SEED).
// Oracle: file set and bytes equal to the canonical run of the same (corpus, mode).

use std::collections::{BTreeMap, BTreeSet};
use std::path::{Path, PathBuf};
use std::process::{Command, Stdio};
use std::sync::{Arc, Mutex};
use std::time::{Duration, Instant};

use serde_json::{json, Value};

fn arg<'a>(args: &'a [String], name: &str) -> Option<&'a str> {
    args.iter().position(|a| a == name).and_then(|i| args.get(i + 1)).map(|s| s.as_str())
}
fn args_all<'a>(args: &'a [String], name: &str) -> Vec<&'a str> {
    let mut v = vec![];
    for (i, a) in args.iter().enumerate() {
        if a == name {
            if let Some(x) = args.get(i + 1) {
                v.push(x.as_str());
            }
        }
    }
    v
}

fn main() {
    let args: Vec<String> = std::env::args().collect();
    match args.get(1).map(|s| s.as_str()) {
        Some("drive") => drive(&args),
        Some("run") => run(&args),
        Some("replay") => std::process::exit(replay(&args)),
        Some("print-family") => {
            let dir = PathBuf::from(args.get(2).expect("dir"));
            print_family(&dir, 7);
            print_pfamily(&dir.join("p"), 3);
        }
        _ => {
            eprintln!("usage: gen-sim run --tier quick|thorough [--seed N] | replay <file> | drive ...");
            std::process::exit(2);
        }
    }
}

// ------------------------------------------------------------------ driver

fn drive(args: &[String]) {
    let source = arg(args, "--source").unwrap_or("thrift");
    let mode = arg(args, "--mode").unwrap_or("single");
    let out = PathBuf::from(arg(args, "--out").expect("--out"));
    let include = arg(args, "--include").map(PathBuf::from);
    let entries: Vec<PathBuf> = args_all(args, "--entry").into_iter().map(PathBuf::from).collect();
    std::fs::create_dir_all(&out).unwrap();
    let services: Vec<pilota_build::IdlService> = entries.iter().map(|p| pilota_build::IdlService::from_path(p.clone())).collect();
    let split = mode == "split" || mode == "workspace_split" || mode == "split_touch";
    // option variants of single-file mode: prune unused items (the builder's default), keep unknown fields
    let ignore_unused = mode == "single_iu" || mode == "single_touch" || mode == "split_touch";
    // `touch`: keep some otherwise unused items of several files (printed family only: its item names are known)
    let mut touches: Vec<(PathBuf, Vec<String>)> = vec![];
    if mode == "single_touch" || mode == "split_touch" {
        for e in &entries {
            let stem = e.file_stem().map(|s| s.to_string_lossy().to_string()).unwrap_or_default();
            if let Some(i) = stem.strip_prefix("fam").and_then(|x| x.parse::<usize>().ok()) {
                touches.push((e.clone(), vec![format!("FooBar{}", i), "Common".to_string(), format!("U{}", i), format!("foo_bar{}", i)]));
            } else if let Some(i) = stem.strip_prefix("lib").and_then(|x| x.parse::<usize>().ok()) {
                touches.push((e.clone(), (0..260).step_by(11).map(|k| format!("L{}S{}", i, (k + i * 3) % 260)).collect()));
            } else if stem == "fambig" {
                touches.push((e.clone(), (0..330).step_by(7).map(|k| format!("Big{}", k)).collect()));
            }
        }
    }
    let keep = mode == "single_keep";
    // further builder options, each a separate code path in the generator: duplicate-item
    // folding by name (first definition met wins), identifiers kept as written, a derive plugin
    let dedup = mode == "single_dedup";
    let nocase = mode == "single_nocase";
    let serde = mode == "single_serde";
    let output = if mode.starts_with("workspace") {
        std::fs::File::create(out.join("Cargo.toml")).unwrap();
        pilota_build::Output::Workspace(out.clone())
    } else {
        pilota_build::Output::File(out.join("gen.rs"))
    };
    // several include directories are passed as one colon-separated argument, in priority order
    let inc: Vec<PathBuf> = include.map(|d| d.to_string_lossy().split(':').map(PathBuf::from).collect()).unwrap_or_default();
    match source {
        "protobuf" => {
            let mut b = pilota_build::Builder::protobuf().ignore_unused(ignore_unused).split_generated_files(split);
            if !inc.is_empty() {
                b = b.include_dirs(inc);
            }
            b.compile_with_config(services, output);
        }
        _ => {
            let mut b = pilota_build::Builder::thrift().ignore_unused(ignore_unused).split_generated_files(split);
            if keep {
                b = b.keep_unknown_fields(entries.clone());
            }
            if !touches.is_empty() {
                b = b.touch(touches.clone());
            }
            if dedup {
                b = b.dedup(["Common", "Kind", "Item"].into_iter().map(Into::into)).special_namings(["FOO"].into_iter().map(Into::into));
            }
            if nocase {
                b = b.change_case(false);
            }
            if serde {
                b = b.plugin(pilota_build::plugin::SerdePlugin).plugin(pilota_build::plugin::ImplDefaultPlugin);
            }
            if !inc.is_empty() {
                b = b.include_dirs(inc);
            }
            b.compile_with_config(services, output);
        }
    }
}

// ------------------------------------------------------------------ corpora

#[derive(Clone, Debug)]
struct Corpus {
    name: String,
    source: &'static str,
    include: Option<PathBuf>,
    entries: Vec<PathBuf>,
    modes: Vec<&'static str>,
}

/// A printed family of IDL files: many namespaces, identifiers that collide
/// after case conversion, many services, cross-file includes.
fn print_family(dir: &Path, nfiles: usize) -> Vec<PathBuf> {
    std::fs::create_dir_all(dir).unwrap();
    let mut entries = vec![];
    for i in 0..nfiles {
        let mut s = String::new();
        for j in 0..i {
            if (i + j) % 2 == 0 || j + 1 == i {
                s.push_str(&format!("include \"fam{}.thrift\"\n", j));
            }
        }
        s.push_str("include \"famshared.thrift\"\n");
        // several files share a namespace prefix, some share the whole namespace
        s.push_str(&format!("namespace rs fam.ns{}.part{}\n\n", i % 3, i % 2));
        // each file enters the reference cycles of the shared (non-entry) file at another member
        s.push_str(&format!("struct UsesShared{} {{\n", i));
        for g in 0..4usize {
            let l = 3 + g % 3;
            s.push_str(&format!("  {}: optional famshared.Cyc{}x{} c{},\n", g + 1, g, (i + g) % l, g));
        }
        s.push_str("}\n");
        s.push_str(&format!("enum Kind{} {{ A = 0, B = 1, a_b = 2, AB = 3 }}\n", i));
        // names that collide after case conversion
        for (k, n) in ["FooBar", "foo_bar", "Foo_Bar", "fooBar", "FOO_BAR"].iter().enumerate() {
            s.push_str(&format!("struct {}{} {{\n  1: optional i32 value_{},\n  2: optional string Value{},\n", n, i, k, k));
            if i > 0 {
                s.push_str(&format!("  3: optional fam{}.FooBar{} prev,\n", i - 1, i - 1));
            }
            s.push_str(&format!("  4: optional Kind{} kind,\n  5: optional map<string, list<i64>> m,\n}}\n", i));
        }
        // the same names in every file: several modules (and, from the 7th file on, the same
        // module twice) declare them, which exercises duplicate-name numbering and split file names
        s.push_str("struct Common { 1: optional string id, 2: optional Kind kind }\nenum Kind { X = 0, Y = 1 }\nstruct Item { 1: optional Common common, 2: optional list<Common> more }\n");
        s.push_str(&format!("union U{} {{ 1: string a, 2: i64 b, 3: FooBar{} c }}\n", i, i));
        s.push_str(&format!("exception E{} {{ 1: string message }}\n", i));
        s.push_str(&format!("const string NAME{} = \"fam{}\"\nconst map<string, i32> TABLE{} = {{\"a\": 1, \"b\": 2, \"c\": 3}}\n", i, i, i));
        // constants and defaults that name enums of this and of an included file by integer and by variant,
        // from several namespaces: the rendered path depends on the module being generated
        s.push_str(&format!("const Kind{} KC{} = 1\nconst list<Kind{}> KL{} = [0, 1, 2]\nconst map<Kind{}, string> KM{} = {{Kind{}.A: \"a\", Kind{}.B: \"b\"}}\n", i, i, i, i, i, i, i, i));
        if i > 0 {
            let j = i - 1;
            s.push_str(&format!("const fam{}.Kind{} PKC{} = 1\nconst list<fam{}.Kind{}> PKL{} = [0, 1, 2, 3]\nconst map<string, fam{}.Kind{}> PKM{} = {{\"x\": 2, \"y\": fam{}.Kind{}.B}}\n", j, j, i, j, j, i, j, j, i, j, j));
            s.push_str(&format!("struct Defaults{} {{\n  1: optional fam{}.Kind{} k = 1,\n  2: optional Kind{} own = 2,\n  3: optional list<i32> l = [1, 2],\n  4: optional string s = NAME{},\n  5: optional list<fam{}.Kind{}> ks = [3, 0],\n}}\n", i, j, j, i, i, j, j));
        }
        // constants of every nesting shape: containers in containers, maps in lists, struct values
        s.push_str(&format!("const map<string, map<string, i32>> NESTED{} = {{\"a\": {{\"x\": 1, \"y\": 2}}, \"b\": {{\"z\": 3}}}}\n", i));
        s.push_str(&format!("const list<map<string, i32>> LMAP{} = [{{\"a\": 1}}, {{\"b\": 2, \"c\": 3}}]\n", i));
        s.push_str(&format!("const map<i32, list<string>> MLIST{} = {{1: [\"a\", \"b\"], 2: []}}\n", i));
        s.push_str(&format!("const list<list<i64>> LL{} = [[1, 2], [], [3]]\n", i));
        s.push_str(&format!("const map<string, map<string, list<map<string, i32>>>> DEEP{} = {{\"k\": {{\"l\": [{{\"m\": {}}}]}}}}\n", i, i));
        s.push_str(&format!("const double PI{} = 3.25\nconst bool FLAG{} = true\nconst binary BIN{} = \"bytes\"\n", i, i, i));
        if i > 1 {
            let j = i - 2;
            if (i + j) % 2 == 0 {
                s.push_str(&format!("const list<fam{}.Kind{}> PPL{} = [1, 2]\n", j, j, i));
            }
        }
        for svc in 0..3 {
            s.push_str(&format!("service Svc{}x{} {{\n", i, svc));
            for m in 0..4 {
                s.push_str(&format!("  FooBar{} call_{}(1: foo_bar{} req, 2: U{} u) throws (1: E{} e),\n", i, m, i, i, i));
                s.push_str(&format!("  void Call{}(1: FOO_BAR{} req),\n", m, i));
            }
            s.push_str("}\n");
        }
        let p = dir.join(format!("fam{}.thrift", i));
        std::fs::write(&p, s).unwrap();
        entries.push(p);
    }
    // a file that is only ever included: reference cycles of length 3..5 among types that several entry
    // files use (in workspace mode they live in the common crate, entered by each crate at another member)
    let mut sh = String::from("namespace rs fam.shared\n\n");
    for g in 0..4usize {
        let l = 3 + g % 3;
        for k in 0..l {
            sh.push_str(&format!("struct Cyc{}x{} {{ 1: optional Cyc{}x{} next, 2: optional string tag, 3: optional list<Cyc{}x{}> more }}\n", g, k, g, (k + 1) % l, g, (k + 2) % l));
        }
    }
    std::fs::write(dir.join("famshared.thrift"), sh).unwrap();
    // one namespace with several hundred items (size thresholds in the generator: chunking, inline capacities)
    let mut s = String::from("namespace rs fam.big\n\n");
    for i in 0..330 {
        s.push_str(&format!("struct Big{} {{ 1: optional i32 a, 2: optional string b }}\n", i));
        if i % 30 == 0 {
            s.push_str(&format!("enum BigKind{} {{ P = 0, Q = 1 }}\n", i));
        }
    }
    let p = dir.join("fambig.thrift");
    std::fs::write(&p, s).unwrap();
    entries.push(p);
    // type graphs: reference cycles of length 2..5 (direct, through containers, through unions), second
    // cycles through one node, nodes that cannot derive Hash/Eq/Ord (a double below them) at every
    // position of the cycle and declared before or after the cycle edge, chains between the gadgets.
    // What each item derives is decided by graph walks whose start order and work lists are maps and sets.
    let mut s = String::from("namespace rs fam.graph\n\nstruct P0 { 1: double d }\nstruct P1 { 1: list<double> ds }\nstruct P2 { 1: optional P0 inner, 2: optional string s }\n");
    let ng = 16;
    for g in 0..ng {
        let l = 2 + g % 4;
        let poisoned = g % 5 != 0;
        let pz = g % l;
        for i in 0..l {
            let next = format!("N{}x{}", g, (i + 1) % l);
            let edge = match (g + i) % 4 {
                0 => format!("  1: optional {} next,\n", next),
                1 => format!("  1: optional list<{}> next,\n", next),
                2 => format!("  1: optional map<string, {}> next (pilota.rust_type = \"btree\"),\n", next),
                _ => format!("  1: optional {} next (pilota.rust_wrapper_arc = \"true\"),\n", next),
            };
            let poison = if poisoned && i == pz { format!("  9: optional P{} p,\n", g % 3) } else { String::new() };
            s.push_str(&format!("struct N{}x{} {{\n", g, i));
            if g % 2 == 1 {
                s.push_str(&poison);
                s.push_str(&edge);
            } else {
                s.push_str(&edge);
                s.push_str(&poison);
            }
            if g % 3 == 0 && i == 0 {
                s.push_str(&format!("  2: optional N{}x{} back,\n", g, l - 1));
            }
            if g % 8 == 1 && i == 1 {
                s.push_str(&format!("  3: optional N{}x0 other,\n", (g + 1) % ng));
            }
            if g == ng - 1 && i == 0 {
                s.push_str("  4: optional list<N0x0> first,\n");
            }
            if g % 4 == 2 && i == 0 {
                s.push_str(&format!("  5: optional UG{} u,\n", g));
            }
            s.push_str("  7: optional i64 v,\n  8: optional list<string> tags,\n}\n");
        }
        if g % 4 == 2 {
            s.push_str(&format!("union UG{} {{ 1: N{}x1 a, 2: string s, 3: list<i32> k }}\n", g, g));
        }
    }
    s.push_str("service Graph {\n");
    for g in 0..ng {
        s.push_str(&format!("  N{}x0 get{}(1: N{}x1 req),\n", g, g, g));
    }
    s.push_str("}\n");
    let p = dir.join("famgraph.thrift");
    std::fs::write(&p, s).unwrap();
    entries.push(p);
    // language features: typedef chains, keywords as identifiers, renamed items and fields, annotations, enum values
    // out of the usual range, service inheritance, oneway methods, several exceptions, doc comments, an
    // included file in a sub-directory whose stem equals another family file's
    let sub = dir.join("sub");
    std::fs::create_dir_all(&sub).unwrap();
    std::fs::write(sub.join("fam0.thrift"), "namespace rs fam.feat.sub\nstruct Common { 1: optional string id }\ntypedef Common CommonAlias\n").unwrap();
    let s = r#"include "sub/fam0.thrift"
namespace rs fam.feat
namespace go fam.feat.go

/** a documented typedef chain */
typedef i64 Id
typedef Id UserId
typedef list<UserId> UserIds
typedef map<string, UserIds> Groups

/// keywords as identifiers
struct type {
  1: optional string self,
  2: optional i32 async,
  3: optional bool match,
  4: optional UserId fn (pilota.name = "func"),
  5: optional Groups mod,
}

enum Status { OK = 0, NOT_FOUND = 404, NEGATIVE = -7, BIG = 2147483647 }

struct Renamed {
  1: optional string a (pilota.name = "alpha"),
  2: optional binary b (pilota.rust_type = "vec"),
  3: optional map<string, i32> c (pilota.rust_type = "btree"),
  4: optional fam0.Common common (pilota.rust_wrapper_arc = "true"),
  5: optional fam0.CommonAlias alias,
  6: optional Status status = Status.NOT_FOUND,
  7: optional list<type> types,
} (pilota.name = "RenamedStruct")

exception E1 { 1: string message }
exception E2 { 1: string message, 2: i32 code }

service Base {
  Id next(1: Id cur),
  oneway void fire(1: string what),
}

service Derived extends Base {
  Renamed get(1: UserId id, 2: type t) throws (1: E1 e1, 2: E2 e2),
  void type(1: Status self),
}
"#;
    let p = dir.join("famfeat.thrift");
    std::fs::write(&p, s).unwrap();
    entries.push(p);
    entries
}

/// Large libraries of which little is used: four files of 260 structs each (some referring to their
/// neighbours) and an application file whose service reaches a few of them; with `ignore_unused` (and
/// `touch` lists naming further items in several files) most of the input is pruned, so the ids of the
/// items that stay are sparse.
fn print_pruned(dir: &Path) -> Vec<PathBuf> {
    std::fs::create_dir_all(dir).unwrap();
    let mut entries = vec![];
    for i in 0..4 {
        let mut s = format!("namespace rs pruned.lib{}\n\n", i);
        for k in 0..260 {
            s.push_str(&format!("struct L{}S{} {{\n  1: optional i32 a,\n  2: optional string b,\n", i, k));
            if k % 9 == 0 && k + 5 < 260 {
                s.push_str(&format!("  3: optional L{}S{} next,\n", i, k + 5));
            }
            if k % 13 == 0 {
                s.push_str(&format!("  4: optional list<L{}E{}> kinds,\n", i, k % 5));
            }
            s.push_str("}\n");
            if k < 5 {
                s.push_str(&format!("enum L{}E{} {{ A = 0, B = 1, C = 2 }}\n", i, k));
            }
        }
        let p = dir.join(format!("lib{}.thrift", i));
        std::fs::write(&p, s).unwrap();
        entries.push(p);
    }
    let mut s = String::new();
    for i in 0..4 {
        s.push_str(&format!("include \"lib{}.thrift\"\n", i));
    }
    s.push_str("namespace rs pruned.app\n\nstruct Req {\n");
    for i in 0..4 {
        for (n, k) in [3usize, 27, 90, 117, 200].iter().enumerate() {
            s.push_str(&format!("  {}: optional lib{}.L{}S{} f{}x{},\n", i * 10 + n + 1, i, i, k, i, k));
        }
    }
    s.push_str("}\nservice App { Req call(1: Req req) }\n");
    let p = dir.join("app.thrift");
    std::fs::write(&p, s).unwrap();
    entries.push(p);
    entries
}

/// Shadowed includes: `include "base.thrift"` is found in neither the including file's directory nor
/// uniquely in the include path - two include directories hold a file of that name with different
/// content, and the first directory in the configured order must win.
fn print_shadow(root: &Path) -> (Vec<PathBuf>, PathBuf) {
    let (idl, third, app) = (root.join("idl"), root.join("third_party"), root.join("app"));
    for d in [&idl, &third, &app] {
        std::fs::create_dir_all(d).unwrap();
    }
    std::fs::write(idl.join("base.thrift"), "namespace rs shadow.base\nstruct Base { 1: optional string from_idl, 2: optional i64 id }\nenum Origin { IDL = 1 }\n").unwrap();
    std::fs::write(third.join("base.thrift"), "namespace rs shadow.base\nstruct Base { 1: optional binary from_third_party, 3: optional list<i32> ids }\nenum Origin { THIRD_PARTY = 2 }\n").unwrap();
    std::fs::write(idl.join("extra.thrift"), "include \"base.thrift\"\nnamespace rs shadow.extra\nstruct Extra { 1: optional base.Base b }\n").unwrap();
    std::fs::write(third.join("only_third.thrift"), "namespace rs shadow.only\nstruct Only { 1: optional i8 x }\n").unwrap();
    let main = app.join("main.thrift");
    std::fs::write(&main, "include \"base.thrift\"\ninclude \"extra.thrift\"\ninclude \"only_third.thrift\"\nnamespace rs shadow.app\nstruct Req { 1: optional base.Base base, 2: optional extra.Extra extra, 3: optional only_third.Only only, 4: optional base.Origin origin }\nservice App { Req call(1: Req r) }\n").unwrap();
    (vec![main], PathBuf::from(format!("{}:{}", idl.display(), third.display())))
}

/// A printed family of .proto files: several nested messages per message (two
/// levels), nested enums, maps, oneofs, cross-file imports, shared package prefixes.
fn print_pfamily(dir: &Path, nfiles: usize) -> Vec<PathBuf> {
    std::fs::create_dir_all(dir).unwrap();
    let mut entries = vec![];
    for i in 0..nfiles {
        let mut s = String::from("syntax = \"proto3\";\n");
        s.push_str(&format!("package pfam.p{}.q{};\n", i % 2, i));
        for j in 0..i {
            s.push_str(&format!("import \"pfam{}.proto\";\n", j));
        }
        for m in 0..3 {
            s.push_str(&format!("message Outer{}x{} {{\n", i, m));
            for n in ["Alpha", "beta_msg", "Gamma", "DELTA", "epsilon"] {
                s.push_str(&format!("  message {} {{\n    int32 a = 1;\n    message Inner1 {{ string s = 1; }}\n    message Inner2 {{ bytes b = 1; }}\n    message inner_3 {{ int64 c = 1; }}\n    Inner1 i1 = 2;\n    Inner2 i2 = 3;\n    inner_3 i3 = 4;\n    enum E {{ E_ZERO = 0; E_ONE = 1; }}\n    E e = 5;\n  }}\n", n));
            }
            s.push_str("  enum Kind { KIND_A = 0; KIND_B = 1; }\n");
            s.push_str("  Alpha a = 1;\n  beta_msg b = 2;\n  Gamma c = 3;\n  DELTA d = 4;\n  epsilon e = 5;\n  map<string, Alpha> m1 = 6;\n  map<int32, Gamma> m2 = 7;\n  Kind k = 8;\n");
            s.push_str("  oneof pick { string s = 9; Alpha oa = 10; int64 n = 11; }\n");
            if i > 0 {
                s.push_str(&format!("  pfam.p{}.q{}.Outer{}x0 prev = 12;\n", (i - 1) % 2, i - 1, i - 1));
            }
            s.push_str("}\n");
        }
        // many top-level items with gaps between their ids (enum variants take ids too), all reachable from
        // the service: which items `ignore_unused` keeps is found by a walk from the entry files' services
        let mut bag = format!("message Bag{} {{\n", i);
        for e in 0..10 {
            s.push_str(&format!("enum Tone{}x{} {{\n", i, e));
            for v in 0..9 {
                s.push_str(&format!("  TONE_{}_{}_{} = {};\n", i, e, v, v));
            }
            s.push_str("}\n");
            bag.push_str(&format!("  Tone{}x{} t{} = {};\n", i, e, e, e + 1));
        }
        for m in 0..30 {
            s.push_str(&format!("message Plain{}x{} {{ int32 a = 1; string b = 2; Tone{}x{} t = 3; }}\n", i, m, i, m % 10));
            bag.push_str(&format!("  Plain{}x{} p{} = {};\n", i, m, m, m + 20));
        }
        bag.push_str("}\n");
        s.push_str(&bag);
        s.push_str(&format!("message BagHolder{} {{ Bag{} bag = 1; }}\n", i, i));
        s.push_str(&format!("service PSvc{} {{\n  rpc Bags(BagHolder{}) returns (Bag{});\n  rpc Call(Outer{}x0) returns (Outer{}x1);\n  rpc Other(Outer{}x2) returns (Outer{}x0);\n}}\n", i, i, i, i, i, i, i));
        let p = dir.join(format!("pfam{}.proto", i));
        std::fs::write(&p, s).unwrap();
        entries.push(p);
    }
    // type graphs (see the thrift family): message cycles of length 2..5, a double at every position
    let mut s = String::from("syntax = \"proto3\";\npackage pfam.graph;\n\nmessage P0 { double d = 1; }\nmessage P1 { repeated float fs = 1; }\n");
    let ng = 12;
    for g in 0..ng {
        let l = 2 + g % 4;
        let pz = g % l;
        for i in 0..l {
            s.push_str(&format!("message G{}n{} {{\n", g, i));
            let next = format!("G{}n{}", g, (i + 1) % l);
            let edge = match (g + i) % 3 {
                0 => format!("  {} next = 1;\n", next),
                1 => format!("  repeated {} next = 1;\n", next),
                _ => format!("  oneof sel {{ {} next = 1; string other = 6; }}\n", next),
            };
            let poison = if g % 5 != 0 && i == pz { format!("  P{} p = 9;\n", g % 2) } else { String::new() };
            if g % 2 == 1 {
                s.push_str(&poison);
                s.push_str(&edge);
            } else {
                s.push_str(&edge);
                s.push_str(&poison);
            }
            if g % 3 == 0 && i == 0 {
                s.push_str(&format!("  G{}n{} back = 2;\n", g, l - 1));
            }
            if g % 6 == 1 && i == 1 {
                s.push_str(&format!("  G{}n0 chain = 3;\n", (g + 1) % ng));
            }
            s.push_str("  int64 v = 7;\n  repeated string tags = 8;\n}\n");
        }
    }
    let p = dir.join("pfamgraph.proto");
    std::fs::write(&p, s).unwrap();
    entries.push(p);
    entries
}

fn corpora(scratch: &Path, tier_thorough: bool) -> Vec<Corpus> {
    let td = PathBuf::from("/repo/pilota-build/test_data");
    let mut v = vec![];
    // the repository's own multi-file / workspace inputs
    let ws_in = td.join("thrift_workspace/input");
    v.push(Corpus {
        name: "repo_thrift_workspace".into(),
        source: "thrift",
        include: None,
        entries: ["article", "author", "image"].iter().map(|n| ws_in.join(format!("{}.thrift", n))).collect(),
        modes: vec!["workspace", "workspace_split", "single", "single_iu"],
    });
    v.push(Corpus {
        name: "repo_unknown_fields".into(),
        source: "thrift",
        include: Some(td.clone()),
        entries: vec![td.join("unknown_fields.thrift")],
        modes: vec!["single", "split"],
    });
    let mut thrift_files: Vec<PathBuf> = std::fs::read_dir(td.join("thrift")).map(|d| d.filter_map(|e| e.ok().map(|e| e.path())).filter(|p| p.extension().map(|e| e == "thrift").unwrap_or(false)).collect()).unwrap_or_default();
    thrift_files.sort();
    v.push(Corpus {
        name: "repo_thrift_all".into(),
        source: "thrift",
        include: Some(td.join("thrift")),
        // several entry files at once: many modules in one run
        entries: thrift_files.iter().filter(|p| {
            let n = p.file_name().unwrap().to_string_lossy().to_string();
            // const_val / default_value contain constructs whose generated code is irrelevant here; keep all that parse together
            !n.starts_with("path_keyword")
        }).cloned().collect(),
        modes: vec!["single", "split"],
    });
    let mut pb_files: Vec<PathBuf> = std::fs::read_dir(td.join("protobuf")).map(|d| d.filter_map(|e| e.ok().map(|e| e.path())).filter(|p| p.extension().map(|e| e == "proto").unwrap_or(false)).collect()).unwrap_or_default();
    pb_files.sort();
    v.push(Corpus { name: "repo_protobuf_all".into(), source: "protobuf", include: Some(td.join("protobuf")), entries: pb_files, modes: vec!["single", "split"] });
    // printed family
    let fam_dir = scratch.join("family");
    let n = if tier_thorough { 9 } else { 7 };
    let fam = print_family(&fam_dir, n);
    v.push(Corpus { name: "family_all_entries".into(), source: "thrift", include: Some(fam_dir.clone()), entries: fam.clone(), modes: vec!["single", "split", "workspace", "workspace_split", "single_iu", "single_keep", "single_touch", "single_dedup", "single_nocase", "single_serde"] });
    let pfam_dir = scratch.join("pfamily");
    let pfam = print_pfamily(&pfam_dir, if tier_thorough { 4 } else { 3 });
    v.push(Corpus { name: "pfamily_all_entries".into(), source: "protobuf", include: Some(pfam_dir), entries: pfam, modes: vec!["single", "split", "single_iu"] });
    v.push(Corpus { name: "family_last_entry".into(), source: "thrift", include: Some(fam_dir), entries: vec![fam[n - 1].clone()], modes: vec!["single", "workspace"] });
    v.push(Corpus { name: "family_big_namespace".into(), source: "thrift", include: None, entries: vec![fam[n].clone()], modes: vec!["single", "split"] });
    let pruned_dir = scratch.join("pruned");
    let pruned = print_pruned(&pruned_dir);
    v.push(Corpus { name: "family_pruned".into(), source: "thrift", include: Some(pruned_dir), entries: pruned, modes: vec!["single_iu", "single_touch", "split_touch"] });
    let (shadow_entries, shadow_inc) = print_shadow(&scratch.join("shadow"));
    v.push(Corpus { name: "family_shadow".into(), source: "thrift", include: Some(shadow_inc), entries: shadow_entries, modes: vec!["single", "single_iu", "split"] });
    v.push(Corpus { name: "family_type_graphs".into(), source: "thrift", include: None, entries: vec![fam[n + 1].clone()], modes: vec!["single", "single_iu", "workspace"] });
    v.push(Corpus { name: "family_features".into(), source: "thrift", include: Some(scratch.join("family")), entries: vec![fam[n + 2].clone()], modes: vec!["single", "split", "workspace", "single_iu", "single_nocase", "single_serde"] });
    v
}

// ------------------------------------------------------------------ runs

#[derive(Clone, Debug)]
struct RunCfg {
    corpus: usize,
    mode: &'static str,
    hash_seed: u64,
    threads: u32,
    gate_seed: Option<u64>,
    real_rustfmt: bool,
    /// tier 3: several workers, no gate - real rayon scheduling decides how jobs overlap
    uncontrolled: bool,
}

struct RunOut {
    ok: bool,
    timed_out: bool,
    stderr: String,
    dir: PathBuf,
    gate_log: String,
    shim_calls: u64,
    wall: f64,
}

fn splitmix(s: &mut u64) -> u64 {
    *s = s.wrapping_add(0x9E37_79B9_7F4A_7C15);
    let mut z = *s;
    z = (z ^ (z >> 30)).wrapping_mul(0xBF58_476D_1CE4_E5B9);
    z = (z ^ (z >> 27)).wrapping_mul(0x94D0_49BB_1331_11EB);
    z ^ (z >> 31)
}

fn exec_run(c: &Corpus, cfg: &RunCfg, dir: &Path, shim: &Path) -> RunOut {
    let _ = std::fs::remove_dir_all(dir);
    std::fs::create_dir_all(dir).unwrap();
    let out = dir.join("out");
    let gate_log = dir.join("gate.log");
    let shim_log = dir.join("shim.log");
    let exe = std::env::current_exe().unwrap();
    let mut cmd = Command::new("setarch");
    cmd.arg(std::env::consts::ARCH).arg("-R").arg(&exe).arg("drive").arg("--source").arg(c.source).arg("--mode").arg(cfg.mode).arg("--out").arg(&out);
    if let Some(i) = &c.include {
        cmd.arg("--include").arg(i);
    }
    for e in &c.entries {
        cmd.arg("--entry").arg(e);
    }
    cmd.env("LD_PRELOAD", shim)
        .env("VERIF_HASH_SEED", cfg.hash_seed.to_string())
        .env("VERIF_SHIM_LOG", &shim_log)
        .env("RAYON_NUM_THREADS", cfg.threads.to_string())
        .env("CARGO_NET_OFFLINE", "true")
        .env("RUST_BACKTRACE", "0")
        .env_remove("VERIF_GATE_SEED")
        .env_remove("VERIF_GATE_LOG");
    if !cfg.real_rustfmt {
        cmd.env("RUSTFMT", "/bin/true");
        // bulk runs: `cargo init` (workspace mode) is served by a stub that writes the same skeleton;
        // the real-rustfmt runs use the real cargo
        let stub = shim.parent().and_then(|p| p.parent()).map(|p| p.join("gen-sim/cargo-stub"));
        if let Some(stub) = stub {
            if stub.join("cargo").exists() {
                let path = std::env::var("PATH").unwrap_or_default();
                cmd.env("PATH", format!("{}:{}", stub.display(), path));
            }
        }
    } else {
        cmd.env_remove("RUSTFMT");
    }
    if let Some(g) = cfg.gate_seed {
        cmd.env("VERIF_GATE_SEED", g.to_string()).env("VERIF_GATE_LOG", &gate_log);
    }
    cmd.stdin(Stdio::null()).stdout(Stdio::null()).stderr(Stdio::piped());
    let t0 = Instant::now();
    let mut child = cmd.spawn().expect("spawn driver");
    let mut timed_out = false;
    let status = loop {
        match child.try_wait() {
            Ok(Some(s)) => break s,
            Ok(None) => {
                if t0.elapsed() > Duration::from_secs(300) {
                    timed_out = true;
                    let _ = child.kill();
                }
                std::thread::sleep(Duration::from_millis(5));
            }
            Err(_) => std::process::exit(2),
        }
    };
    let mut stderr = String::new();
    if let Some(mut e) = child.stderr.take() {
        use std::io::Read;
        let _ = e.read_to_string(&mut stderr);
    }
    let shim_calls = std::fs::read_to_string(&shim_log).ok().map(|s| s.lines().filter_map(|l| l.trim().parse::<u64>().ok()).sum()).unwrap_or(0);
    RunOut {
        ok: status.success(),
        timed_out,
        stderr,
        dir: out,
        gate_log: std::fs::read_to_string(&gate_log).unwrap_or_default(),
        shim_calls,
        wall: t0.elapsed().as_secs_f64(),
    }
}

/// relative path -> contents (the run directory prefix normalised away)
fn read_tree(root: &Path) -> BTreeMap<String, Vec<u8>> {
    fn walk(dir: &Path, root: &Path, m: &mut BTreeMap<String, Vec<u8>>) {
        let Ok(rd) = std::fs::read_dir(dir) else { return };
        for e in rd.flatten() {
            let p = e.path();
            if p.is_dir() {
                if p.file_name().map(|n| n == "target").unwrap_or(false) {
                    continue;
                }
                walk(&p, root, m);
            } else {
                let rel = p.strip_prefix(root).unwrap().to_string_lossy().to_string();
                let mut b = std::fs::read(&p).unwrap_or_default();
                let prefix = root.to_string_lossy().to_string();
                if let Ok(s) = std::str::from_utf8(&b) {
                    if s.contains(&prefix) {
                        b = s.replace(&prefix, "$OUT").into_bytes();
                    }
                }
                m.insert(rel, b);
            }
        }
    }
    let mut m = BTreeMap::new();
    walk(root, root, &mut m);
    m
}

fn diff_trees(a: &BTreeMap<String, Vec<u8>>, b: &BTreeMap<String, Vec<u8>>) -> Option<String> {
    let ka: BTreeSet<_> = a.keys().collect();
    let kb: BTreeSet<_> = b.keys().collect();
    if ka != kb {
        let only_a: Vec<_> = ka.difference(&kb).take(3).collect();
        let only_b: Vec<_> = kb.difference(&ka).take(3).collect();
        return Some(format!("file sets differ: only canonical {:?}, only this run {:?}", only_a, only_b));
    }
    for (k, va) in a {
        let vb = &b[k];
        if va != vb {
            let pos = va.iter().zip(vb.iter()).position(|(x, y)| x != y).unwrap_or(va.len().min(vb.len()));
            let ctx = |v: &Vec<u8>| String::from_utf8_lossy(&v[pos.saturating_sub(60)..(pos + 60).min(v.len())]).to_string();
            return Some(format!("file {} differs at byte {}: canonical ..{:?}.. / this run ..{:?}..", k, pos, ctx(va), ctx(vb)));
        }
    }
    None
}

/// Is a formatted run of this (corpus, mode) cheap? Split modes of the large corpora spend
/// about a minute in rustfmt (one process per file).
fn fmt_cheap(c: &Corpus, mode: &str) -> bool {
    !((mode.contains("split") && (c.name.contains("family") || c.name == "repo_thrift_all")) || c.name == "family_big_namespace")
}

/// Compare two trees, running the real rustfmt on the files that differ textually.
fn diff_trees_formatted(a: &BTreeMap<String, Vec<u8>>, b: &BTreeMap<String, Vec<u8>>, tmp: &Path) -> Option<String> {
    let ka: BTreeSet<_> = a.keys().collect();
    let kb: BTreeSet<_> = b.keys().collect();
    if ka != kb {
        return diff_trees(a, b);
    }
    let _ = std::fs::create_dir_all(tmp);
    let fmt = |name: &str, bytes: &Vec<u8>| -> Option<Vec<u8>> {
        let p = tmp.join(name);
        std::fs::write(&p, bytes).ok()?;
        let st = Command::new("rustfmt").arg("--edition").arg("2021").arg(&p).stdout(Stdio::null()).stderr(Stdio::null()).status().ok()?;
        if !st.success() {
            return None;
        }
        std::fs::read(&p).ok()
    };
    let mut res = None;
    for (k, va) in a {
        let vb = &b[k];
        if va == vb {
            continue;
        }
        if !k.ends_with(".rs") {
            res = diff_trees(a, b);
            break;
        }
        match (fmt("a.rs", va), fmt("b.rs", vb)) {
            (Some(fa), Some(fb)) => {
                if fa != fb {
                    let mut m1 = BTreeMap::new();
                    m1.insert(k.clone(), fa);
                    let mut m2 = BTreeMap::new();
                    m2.insert(k.clone(), fb);
                    res = diff_trees(&m1, &m2);
                    break;
                }
            }
            _ => {
                // not formattable on its own (a fragment): equal as multisets of non-blank lines => a pure reordering
                // or re-spacing that rustfmt might absorb; anything else is a real difference
                let lines = |v: &Vec<u8>| {
                    let mut l: Vec<String> = String::from_utf8_lossy(v).lines().map(|x| x.split_whitespace().collect::<Vec<_>>().join(" ")).filter(|x| !x.is_empty()).collect();
                    l.sort();
                    l
                };
                if lines(va) != lines(vb) {
                    let mut m1 = BTreeMap::new();
                    m1.insert(k.clone(), va.clone());
                    let mut m2 = BTreeMap::new();
                    m2.insert(k.clone(), vb.clone());
                    res = diff_trees(&m1, &m2);
                    break;
                }
            }
        }
    }
    let _ = std::fs::remove_dir_all(tmp);
    res
}

fn tree_digest(t: &BTreeMap<String, Vec<u8>>) -> u64 {
    let mut h = 0xcbf2_9ce4_8422_2325u64;
    for (k, v) in t {
        for b in k.as_bytes().iter().chain(v.iter()) {
            h ^= *b as u64;
            h = h.wrapping_mul(0x0000_0100_0000_01B3);
        }
        h = h.rotate_left(17) ^ 0x9E37_79B9_7F4A_7C15;
    }
    h
}

fn cfg_json(c: &Corpus, cfg: &RunCfg) -> Value {
    json!({"corpus": c.name, "mode": cfg.mode, "hash_seed": cfg.hash_seed, "threads": cfg.threads, "gate_seed": cfg.gate_seed, "real_rustfmt": cfg.real_rustfmt, "uncontrolled": cfg.uncontrolled})
}

fn run(args: &[String]) {
    let tier = arg(args, "--tier").unwrap_or("quick");
    let thorough = tier == "thorough";
    let seed: u64 = arg(args, "--seed").map(|s| s.to_string()).or_else(|| std::env::var("VERIF_SEED").ok()).and_then(|s| s.parse().ok()).unwrap_or(20260101);
    let verif_dir = arg(args, "--verif-dir").unwrap_or("/verif").to_string();
    let shim = PathBuf::from(format!("{}/target/shim.so", verif_dir));
    if !shim.exists() {
        eprintln!("harness error: {} missing (setup_cmd builds it)", shim.display());
        std::process::exit(2);
    }
    let scratch = PathBuf::from(format!("{}/target/gen-scratch/{}", verif_dir, std::process::id()));
    let _ = std::fs::remove_dir_all(&scratch);
    std::fs::create_dir_all(&scratch).unwrap();
    let cs = corpora(&scratch, thorough);
    println!("VERIF_SEED={} property=C17 tier={}", seed, tier);
    let t0 = Instant::now();

    // 1. canonical runs (hash seed 0, one worker, no gate), raw and formatted
    let mut canon: BTreeMap<(usize, &'static str, bool), BTreeMap<String, Vec<u8>>> = BTreeMap::new();
    let mut jobs: Vec<RunCfg> = vec![];
    for (ci, c) in cs.iter().enumerate() {
        for m in &c.modes {
            for fmt in [false, true] {
                // formatting a big split tree takes a minute: its formatted canonical run is made only if a confirmation needs it
                if fmt && !fmt_cheap(c, m) {
                    continue;
                }
                jobs.push(RunCfg { corpus: ci, mode: m, hash_seed: 0, threads: 1, gate_seed: None, real_rustfmt: fmt, uncontrolled: false });
            }
        }
    }
    let results = run_parallel(&cs, &jobs, &scratch, &shim, "canon");
    for (cfg, out) in jobs.iter().zip(results.iter()) {
        if !out.ok {
            eprintln!("harness error: canonical run failed: {} {}\n{}", cs[cfg.corpus].name, cfg.mode, out.stderr);
            std::process::exit(2);
        }
        canon.insert((cfg.corpus, cfg.mode, cfg.real_rustfmt), read_tree(&out.dir));
    }

    if std::env::var("GEN_SIM_VERBOSE").is_ok() {
        eprintln!("phase canonical done at {:.1}s", t0.elapsed().as_secs_f64());
    }
    // 2. exploration
    let per_pair = if thorough { 300 } else { 22 };
    let mut st = seed ^ 0xC17;
    let mut jobs: Vec<RunCfg> = vec![];
    for (ci, c) in cs.iter().enumerate() {
        for m in &c.modes {
            for k in 0..per_pair {
                let hash_seed = splitmix(&mut st);
                let tierkind = k % 7;
                let (threads, gate) = match tierkind {
                    // tier 1: one worker, job order = hash order of the group map
                    0 | 1 => (1, None),
                    // uncontrolled multi-worker runs are for information only: not generated here
                    // tier 2: gate decides the order, pool large enough for every parked job
                    _ => (256, Some(splitmix(&mut st))),
                };
                // a few runs through the real rustfmt, the bulk unformatted (stricter)
                let fmt = k % 7 == 6;
                jobs.push(RunCfg { corpus: ci, mode: m, hash_seed, threads, gate_seed: gate, real_rustfmt: fmt && fmt_cheap(c, m), uncontrolled: false });
                // worker counts 1..16 with the gate off are covered by tier 1 only at 1 worker; with the
                // gate the pool size is irrelevant to the order, vary it as well
                if tierkind == 3 {
                    let t = 192 + (splitmix(&mut st) % 64) as u32;
                    jobs.push(RunCfg { corpus: ci, mode: m, hash_seed, threads: t, gate_seed: Some(splitmix(&mut st)), real_rustfmt: false, uncontrolled: false });
                }
            }
        }
    }
    // tier 3: uncontrolled overlap. Real rayon scheduling with 2..16 workers and no gate, hash seed
    // pinned to the canonical one, so that only the way jobs overlap in time varies. A difference
    // from the canonical tree is a violation (the output must not depend on the schedule at all),
    // but such a run cannot be replayed exactly: replay re-runs the configuration several times.
    let per_pair_t3 = if thorough { 40 } else { 8 };
    for (ci, c) in cs.iter().enumerate() {
        for m in &c.modes {
            for k in 0..per_pair_t3 {
                let threads = [16u32, 4, 2, 8][k % 4];
                jobs.push(RunCfg { corpus: ci, mode: m, hash_seed: 0, threads, gate_seed: None, real_rustfmt: false, uncontrolled: true });
            }
        }
    }
    let results = run_parallel(&cs, &jobs, &scratch, &shim, "x");
    if std::env::var("GEN_SIM_VERBOSE").is_ok() {
        eprintln!("phase exploration runs done at {:.1}s", t0.elapsed().as_secs_f64());
        let mut w: Vec<(f64, String)> = jobs.iter().zip(results.iter()).map(|(c, o)| (o.wall, format!("{} {} fmt={} gate={}", cs[c.corpus].name, c.mode, c.real_rustfmt, c.gate_seed.is_some()))).collect();
        w.sort_by(|a, b| b.0.partial_cmp(&a.0).unwrap());
        for x in w.iter().take(6) {
            eprintln!("  slow run {:.1}s {}", x.0, x.1);
        }
    }
    let mut violations: Vec<Value> = vec![];
    let mut orders: BTreeSet<String> = BTreeSet::new();
    let mut hash_seeds: BTreeSet<u64> = BTreeSet::new();
    let mut shim_calls = 0u64;
    let mut digests: BTreeSet<u64> = BTreeSet::new();
    let mut samples: Vec<Value> = vec![];
    let mut counters: BTreeMap<String, u64> = BTreeMap::new();
    let mut to_confirm: Vec<RunCfg> = vec![];
    let mut to_confirm_count: BTreeMap<String, usize> = BTreeMap::new();
    for (i, (cfg, out)) in jobs.iter().zip(results.iter()).enumerate() {
        let c = &cs[cfg.corpus];
        *counters.entry(format!("mode.{}", cfg.mode)).or_insert(0) += 1;
        *counters.entry(format!("corpus.{}", c.name)).or_insert(0) += 1;
        *counters.entry(if cfg.uncontrolled { "tier3_uncontrolled_overlap_runs".to_string() } else if cfg.gate_seed.is_some() { "tier2_gate_runs".to_string() } else { "tier1_single_worker_runs".to_string() }).or_insert(0) += 1;
        if cfg.real_rustfmt {
            *counters.entry("real_rustfmt_runs".into()).or_insert(0) += 1;
        }
        if out.timed_out || (!out.ok && out.stderr.contains("VERIF-GATE-TIMEOUT")) {
            eprintln!("harness error: run timed out (gate deadlock?): {}\n{}", cfg_json(c, cfg), out.stderr);
            std::process::exit(2);
        }
        if !out.ok {
            eprintln!("harness error: driver failed: {}\n{}", cfg_json(c, cfg), out.stderr);
            std::process::exit(2);
        }
        shim_calls += out.shim_calls;
        *counters.entry(format!("wall_ms.{}.{}", cfg.mode, if cfg.real_rustfmt { "fmt" } else { "raw" })).or_insert(0) += (out.wall * 1000.0) as u64;
        hash_seeds.insert(cfg.hash_seed);
        if !out.gate_log.is_empty() {
            orders.insert(format!("{}|{}|{}", c.name, cfg.mode, out.gate_log));
        }
        let tree = read_tree(&out.dir);
        digests.insert(tree_digest(&tree));
        if samples.len() < 4 && (i % 11 == 0) {
            let mut gl = out.gate_log.replace('\n', " ; ");
            gl.truncate(300);
            samples.push(json!({"run": cfg_json(c, cfg), "files": tree.len(), "bytes": tree.values().map(|v| v.len()).sum::<usize>(), "gate_release_order": gl, "getrandom_calls_served": out.shim_calls, "wall_s": out.wall}));
        }
        let reference = &canon[&(cfg.corpus, cfg.mode, cfg.real_rustfmt)];
        if let Some(d) = diff_trees(reference, &tree) {
            *counters.entry("raw_mismatches".into()).or_insert(0) += 1;
            if cfg.real_rustfmt {
                violations.push(json!({"run": cfg_json(c, cfg), "detail": d, "entries": c.entries.iter().map(|p| p.to_string_lossy().to_string()).collect::<Vec<_>>()}));
            } else if cfg.uncontrolled {
                // cannot be re-run exactly: decide on the two trees at hand, formatting the differing files
                if let Some(d2) = diff_trees_formatted(reference, &tree, &scratch.join(format!("fmtcmp{}", i))) {
                    violations.push(json!({"run": cfg_json(c, cfg), "detail": format!("{} [uncontrolled overlap run: not exactly replayable]", d2), "entries": c.entries.iter().map(|p| p.to_string_lossy().to_string()).collect::<Vec<_>>()}));
                } else {
                    *counters.entry("raw_difference_normalised_away_by_rustfmt".into()).or_insert(0) += 1;
                }
            } else {
                // unformatted text is stricter than the property: confirm with the real rustfmt
                // (at most three candidates per (corpus, mode); violations are reported per pair)
                let k = format!("{}|{}", c.name, cfg.mode);
                let e = to_confirm_count.entry(k).or_insert(0usize);
                if *e < 3 {
                    *e += 1;
                    let mut c2 = cfg.clone();
                    c2.real_rustfmt = true;
                    to_confirm.push(c2);
                }
            }
        }
        let _ = std::fs::remove_dir_all(out.dir.parent().unwrap());
    }
    // confirmation runs, in parallel
    if !to_confirm.is_empty() {
        // formatted canonical runs that were skipped at the start
        let mut need: Vec<RunCfg> = vec![];
        for cfg in &to_confirm {
            if !canon.contains_key(&(cfg.corpus, cfg.mode, true)) && !need.iter().any(|n| n.corpus == cfg.corpus && n.mode == cfg.mode) {
                need.push(RunCfg { corpus: cfg.corpus, mode: cfg.mode, hash_seed: 0, threads: 1, gate_seed: None, real_rustfmt: true, uncontrolled: false });
            }
        }
        if !need.is_empty() {
            let res = run_parallel(&cs, &need, &scratch, &shim, "canonfmt");
            for (cfg, out) in need.iter().zip(res.iter()) {
                if !out.ok {
                    eprintln!("harness error: canonical run failed: {} {}\n{}", cs[cfg.corpus].name, cfg.mode, out.stderr);
                    std::process::exit(2);
                }
                canon.insert((cfg.corpus, cfg.mode, true), read_tree(&out.dir));
            }
        }
        let res = run_parallel(&cs, &to_confirm, &scratch, &shim, "confirm");
        for (cfg, out) in to_confirm.iter().zip(res.iter()) {
            let c = &cs[cfg.corpus];
            if !out.ok {
                eprintln!("harness error: confirmation run failed: {}\n{}", cfg_json(c, cfg), out.stderr);
                std::process::exit(2);
            }
            let t2 = read_tree(&out.dir);
            match diff_trees(&canon[&(cfg.corpus, cfg.mode, true)], &t2) {
                Some(d2) => violations.push(json!({"run": cfg_json(c, cfg), "detail": d2, "entries": c.entries.iter().map(|p| p.to_string_lossy().to_string()).collect::<Vec<_>>()})),
                None => *counters.entry("raw_difference_normalised_away_by_rustfmt".into()).or_insert(0) += 1,
            }
            let _ = std::fs::remove_dir_all(out.dir.parent().unwrap());
        }
    }
    let wall = t0.elapsed().as_secs_f64();
    let evaluations = (jobs.len() + to_confirm.len()) as u64;

    // known findings
    let known = load_known(&verif_dir);
    let mut unknown: Vec<Value> = vec![];
    let mut known_lines: BTreeMap<String, (String, u64)> = BTreeMap::new();
    for v in &violations {
        let d = v["detail"].as_str().unwrap_or("");
        let corpus = v["run"]["corpus"].as_str().unwrap_or("");
        let mode = v["run"]["mode"].as_str().unwrap_or("");
        if let Some((id, what)) = known.iter().find(|k| k.2.as_ref().map(|c| c == corpus).unwrap_or(true) && k.3.as_ref().map(|m| m == mode).unwrap_or(true) && d.contains(&k.4)).map(|k| (k.0.clone(), k.1.clone())) {
            let e = known_lines.entry(id).or_insert((what, 0));
            e.1 += 1;
        } else {
            unknown.push(v.clone());
        }
    }
    let mut kl = vec![];
    for (id, (what, n)) in &known_lines {
        let line = format!("KNOWN-FINDING: property=C17 {} [{}; {} occurrences in this run]", what, id, n);
        println!("{}", line);
        kl.push(line);
    }

    let distinct = orders.len() + hash_seeds.len();
    let ev = json!({
        "property_id": "C17", "tier": tier, "seed": seed, "level": "exploration", "wall_s": wall, "violations": unknown.len(),
        "coverage": {
            "evaluations": evaluations,
            "distinct_nontrivial": distinct,
            "rule": "one evaluation = one whole pilota-build process run for (corpus, mode, hash seed, worker count, gate seed), compared file by file with the canonical run (hash seed 0, one worker, no gate) of the same (corpus, mode). distinct_nontrivial = distinct job release orders logged by the gate (tier 2) + distinct hash seeds (each is a distinct permutation of every std/ahash/dashmap table, and in tier 1 of the per-module job order); the canonical configuration itself is not counted.",
            "samples": samples,
            "exhaustive": false,
            "runs_per_hour": if wall > 0.0 { (evaluations as f64 / wall * 3600.0) as u64 } else { 0 },
            "distinct_gate_release_orders": orders.len(),
            "distinct_hash_seeds": hash_seeds.len(),
            "distinct_output_trees": digests.len(),
            "corpus_mode_pairs": canon.keys().filter(|k| !k.2).count(),
            "getrandom_calls_served_by_shim": shim_calls,
            "counters": counters,
            "known_findings_matched": kl,
            "components": {
                "real": ["pilota-build (parser, resolver, salsa db, codegen, workspace writer) as a whole process", "rayon pool, dashmap, std/ahash hash maps", "rustfmt and cargo init (in the real-rustfmt runs)"],
                "simulated": ["OS entropy (LD_PRELOAD getrandom/getentropy/syscall shim)", "ASLR (switched off with setarch -R)", "job release order (gate compiled in with --cfg pilota_verif)", "worker count (RAYON_NUM_THREADS)", "cargo init in the bulk unformatted runs (stub writing the same crate skeleton)"],
            },
            "explanation": "tiers 1 and 2 are exactly replayable and treat jobs as atomic (no interleaving inside write_item / dashmap / salsa). Tier 3 lets real rayon scheduling overlap the jobs (2..16 workers, no gate, canonical hash seed): any difference from the canonical tree is a genuine violation, but its replay can only re-run the configuration several times.",
        },
        "assumptions": ["the gate serialises jobs: per-job code runs alone", "unformatted output (RUSTFMT=/bin/true) is compared in the bulk of the runs; a raw difference only counts after it reproduces with the real rustfmt"],
    });
    let _ = std::fs::create_dir_all(format!("{}/evidence", verif_dir));
    std::fs::write(format!("{}/evidence/C17.json", verif_dir), serde_json::to_string_pretty(&ev).unwrap()).unwrap();
    let _ = std::fs::remove_dir_all(&scratch);
    println!("property=C17 evaluations={} distinct_gate_orders={} hash_seeds={} distinct_output_trees={} wall={:.1}s", evaluations, orders.len(), hash_seeds.len(), digests.len(), wall);
    if unknown.is_empty() {
        println!("OK property=C17 held on everything explored");
        std::process::exit(0);
    }
    let _ = std::fs::create_dir_all(format!("{}/replays", verif_dir));
    let mut seen = BTreeSet::new();
    // exactly replayable violations first
    unknown.sort_by_key(|v| v["run"]["uncontrolled"].as_bool().unwrap_or(false));
    for v in unknown.iter() {
        let key = format!("{}|{}", v["run"]["corpus"], v["run"]["mode"]);
        if !seen.insert(key) || seen.len() > 2 {
            continue;
        }
        let min = minimise_c17(v, &cs, &verif_dir, &shim);
        let path = format!("{}/replays/C17-{}-{}.json", verif_dir, seed, seen.len());
        let mut j = min;
        j["property"] = json!("C17");
        j["seed"] = json!(seed);
        std::fs::write(&path, serde_json::to_string_pretty(&j).unwrap()).unwrap();
        println!("violation: {} {}", j["run"], j["detail"]);
        println!("VIOLATION property=C17 replay={}", path);
    }
    std::process::exit(1);
}

fn run_parallel(cs: &[Corpus], jobs: &[RunCfg], scratch: &Path, shim: &Path, tag: &str) -> Vec<RunOut> {
    let n = jobs.len();
    let next = Arc::new(Mutex::new(0usize));
    let results: Arc<Mutex<Vec<Option<RunOut>>>> = Arc::new(Mutex::new((0..n).map(|_| None).collect()));
    let par = std::thread::available_parallelism().map(|x| x.get()).unwrap_or(4).min(16);
    std::thread::scope(|s| {
        for _ in 0..par {
            let next = next.clone();
            let results = results.clone();
            s.spawn(move || loop {
                let i = {
                    let mut g = next.lock().unwrap();
                    let i = *g;
                    *g += 1;
                    i
                };
                if i >= n {
                    break;
                }
                let cfg = &jobs[i];
                let dir = scratch.join(format!("{}{}", tag, i));
                let out = exec_run(&cs[cfg.corpus], cfg, &dir, shim);
                results.lock().unwrap()[i] = Some(out);
            });
        }
    });
    Arc::try_unwrap(results).ok().unwrap().into_inner().unwrap().into_iter().map(|x| x.unwrap()).collect()
}

// (id, what, corpus?, mode?, detail_contains)
fn load_known(verif_dir: &str) -> Vec<(String, String, Option<String>, Option<String>, String)> {
    let Ok(s) = std::fs::read_to_string(format!("{}/known_findings.json", verif_dir)) else { return vec![] };
    let Ok(v) = serde_json::from_str::<Value>(&s) else { return vec![] };
    let mut out = vec![];
    for f in v["findings"].as_array().cloned().unwrap_or_default() {
        if f["property"].as_str() != Some("C17") {
            continue;
        }
        let g = |k: &str| f.get(k).and_then(|x| x.as_str()).map(|s| s.to_string());
        out.push((g("id").unwrap_or_default(), g("what").unwrap_or_default(), g("corpus"), g("mode"), g("site_contains").unwrap_or_default()));
    }
    out
}

fn find_corpus<'a>(cs: &'a [Corpus], name: &str) -> Option<(usize, &'a Corpus)> {
    cs.iter().enumerate().find(|(_, c)| c.name == name)
}

fn static_mode(m: &str) -> &'static str {
    // every mode the driver knows (a mode missing here would be replayed as plain "single")
    const MODES: [&str; 11] = ["single", "split", "workspace", "workspace_split", "single_iu", "single_keep", "single_touch", "split_touch", "single_dedup", "single_nocase", "single_serde"];
    match MODES.iter().find(|x| **x == m) {
        Some(x) => x,
        None => {
            eprintln!("harness error: unknown mode {:?} in a run description", m);
            std::process::exit(2);
        }
    }
}

/// Run (canonical, candidate) for a configuration with explicit entries; Some(detail) if they differ.
fn differs(c: &Corpus, cfg: &RunCfg, scratch: &Path, shim: &Path, n: usize) -> Option<String> {
    let canon_cfg = RunCfg { corpus: cfg.corpus, mode: cfg.mode, hash_seed: 0, threads: 1, gate_seed: None, real_rustfmt: cfg.real_rustfmt, uncontrolled: false };
    let a = exec_run(c, &canon_cfg, &scratch.join(format!("m{}a", n)), shim);
    let b = exec_run(c, cfg, &scratch.join(format!("m{}b", n)), shim);
    if !a.ok || !b.ok {
        return None;
    }
    let d = diff_trees(&read_tree(&a.dir), &read_tree(&b.dir));
    let _ = std::fs::remove_dir_all(scratch.join(format!("m{}a", n)));
    let _ = std::fs::remove_dir_all(scratch.join(format!("m{}b", n)));
    d
}

fn minimise_c17(v: &Value, cs: &[Corpus], verif_dir: &str, shim: &Path) -> Value {
    if v["run"]["uncontrolled"].as_bool().unwrap_or(false) {
        // an uncontrolled overlap run cannot be re-run exactly, so it is reported as found
        let mut j = v.clone();
        if let Some((_, c)) = find_corpus(cs, v["run"]["corpus"].as_str().unwrap_or("")) {
            j["source"] = json!(c.source);
            j["include"] = json!(c.include.as_ref().map(|p| p.to_string_lossy().to_string()));
        }
        return j;
    }
    let scratch = PathBuf::from(format!("{}/target/gen-scratch/min{}", verif_dir, std::process::id()));
    let _ = std::fs::create_dir_all(&scratch);
    let run = &v["run"];
    let Some((ci, c0)) = find_corpus(cs, run["corpus"].as_str().unwrap_or("")) else { return v.clone() };
    let mut c = c0.clone();
    let mut cfg = RunCfg {
        corpus: ci,
        mode: static_mode(run["mode"].as_str().unwrap_or("single")),
        hash_seed: run["hash_seed"].as_u64().unwrap_or(0),
        threads: run["threads"].as_u64().unwrap_or(1) as u32,
        gate_seed: run["gate_seed"].as_u64(),
        real_rustfmt: true,
        uncontrolled: run["uncontrolled"].as_bool().unwrap_or(false),
    };
    let mut n = 0;
    let mut detail = v["detail"].as_str().unwrap_or("").to_string();
    // switch the gate off (tier 1 configuration)
    if cfg.gate_seed.is_some() {
        let mut t = cfg.clone();
        t.gate_seed = None;
        t.threads = 1;
        n += 1;
        if let Some(d) = differs(&c, &t, &scratch, shim, n) {
            cfg = t;
            detail = d;
        }
    }
    // drop entry files one at a time
    let mut i = 0;
    while c.entries.len() > 1 && i < c.entries.len() && n < 10 {
        let mut t = c.clone();
        t.entries.remove(i);
        n += 1;
        if let Some(d) = differs(&t, &cfg, &scratch, shim, n) {
            c = t;
            detail = d;
        } else {
            i += 1;
        }
    }
    let _ = std::fs::remove_dir_all(&scratch);
    json!({
        "run": cfg_json(&c, &cfg),
        "source": c.source,
        "include": c.include.as_ref().map(|p| p.to_string_lossy().to_string()),
        "entries": c.entries.iter().map(|p| p.to_string_lossy().to_string()).collect::<Vec<_>>(),
        "detail": format!("{} [minimised with {} candidate run pairs]", detail, n),
        "family_files": if c.name.starts_with("family") { json!(c.entries.len()) } else { Value::Null },
    })
}

fn replay(args: &[String]) -> i32 {
    let Some(file) = args.get(2) else { return 2 };
    let Ok(s) = std::fs::read_to_string(file) else { return 2 };
    let Ok(v) = serde_json::from_str::<Value>(&s) else { return 2 };
    let verif_dir = "/verif";
    let shim = PathBuf::from(format!("{}/target/shim.so", verif_dir));
    let scratch = PathBuf::from(format!("{}/target/gen-scratch/replay{}", verif_dir, std::process::id()));
    let _ = std::fs::create_dir_all(&scratch);
    let run = &v["run"];
    let entries: Vec<PathBuf> = v["entries"].as_array().cloned().unwrap_or_default().iter().filter_map(|e| e.as_str().map(PathBuf::from)).collect();
    // the printed family lives in scratch space: print it again
    if run["corpus"].as_str() == Some("family_shadow") {
        // entries[0] = <root>/app/main.thrift
        if let Some(root) = entries.first().and_then(|p| p.parent()).and_then(|p| p.parent()) {
            print_shadow(root);
        }
    } else if run["corpus"].as_str() == Some("family_pruned") {
        if let Some(first) = entries.first() {
            if let Some(dir) = first.parent() {
                print_pruned(dir);
            }
        }
    } else if run["corpus"].as_str().map(|c| c.starts_with("family")).unwrap_or(false) {
        if let Some(first) = entries.first() {
            if let Some(dir) = first.parent() {
                print_family(dir, 9);
            }
        }
    }
    if run["corpus"].as_str().map(|c| c.starts_with("pfamily")).unwrap_or(false) {
        if let Some(first) = entries.first() {
            if let Some(dir) = first.parent() {
                print_pfamily(dir, 4);
            }
        }
    }
    let c = Corpus {
        name: run["corpus"].as_str().unwrap_or("").to_string(),
        source: if v["source"].as_str() == Some("protobuf") { "protobuf" } else { "thrift" },
        include: v["include"].as_str().map(PathBuf::from),
        entries,
        modes: vec![],
    };
    let cfg = RunCfg {
        corpus: 0,
        mode: static_mode(run["mode"].as_str().unwrap_or("single")),
        hash_seed: run["hash_seed"].as_u64().unwrap_or(0),
        threads: run["threads"].as_u64().unwrap_or(1) as u32,
        gate_seed: run["gate_seed"].as_u64(),
        real_rustfmt: true,
        uncontrolled: run["uncontrolled"].as_bool().unwrap_or(false),
    };
    let mut d = None;
    let attempts = if cfg.uncontrolled { 12 } else { 1 };
    for k in 0..attempts {
        let mut c2 = cfg.clone();
        if cfg.uncontrolled {
            // the schedule is the operating system's: try a few times, unformatted like the original run
            c2.real_rustfmt = false;
        }
        d = differs(&c, &c2, &scratch, &shim, k);
        if d.is_some() {
            break;
        }
    }
    let _ = std::fs::remove_dir_all(&scratch);
    match d {
        Some(d) => {
            println!("REPRODUCED property=C17: {}", d);
            1
        }
        None => {
            println!("NOT-REPRODUCED property=C17");
            0
        }
    }
}
