// LD_PRELOAD shim: the entropy seam of engine B. Overrides getrandom(),
// getentropy() and syscall(SYS_getrandom, ...) with a SplitMix64 stream keyed
// by VERIF_HASH_SEED, so that std's RandomState keys, ahash's seeds and
// DashMap's hasher are a function of that integer. Counts the calls served.
#define _GNU_SOURCE
#include <dlfcn.h>
#include <errno.h>
#include <stdarg.h>
#include <stdint.h>
#include <stdio.h>
#include <stdlib.h>
#include <string.h>
#include <sys/syscall.h>
#include <sys/types.h>
#include <unistd.h>

static uint64_t state;
static int inited;
static unsigned long served;

static void init(void) {
    if (inited) return;
    const char *s = getenv("VERIF_HASH_SEED");
    state = s ? strtoull(s, NULL, 10) : 0;
    state ^= 0x243F6A8885A308D3ull;
    inited = 1;
}

static uint64_t next(void) {
    state += 0x9E3779B97F4A7C15ull;
    uint64_t z = state;
    z = (z ^ (z >> 30)) * 0xBF58476D1CE4E5B9ull;
    z = (z ^ (z >> 27)) * 0x94D049BB133111EBull;
    return z ^ (z >> 31);
}

static void fill(void *buf, size_t len) {
    init();
    unsigned char *p = buf;
    while (len > 0) {
        uint64_t v = next();
        size_t n = len < 8 ? len : 8;
        memcpy(p, &v, n);
        p += n;
        len -= n;
    }
    __sync_fetch_and_add(&served, 1);
}

ssize_t getrandom(void *buf, size_t buflen, unsigned int flags) {
    (void)flags;
    fill(buf, buflen);
    return (ssize_t)buflen;
}

int getentropy(void *buf, size_t buflen) {
    if (buflen > 256) { errno = EIO; return -1; }
    fill(buf, buflen);
    return 0;
}

long syscall(long number, ...) {
    static long (*real)(long, ...);
    va_list ap;
    va_start(ap, number);
    long a = va_arg(ap, long), b = va_arg(ap, long), c = va_arg(ap, long);
    long d = va_arg(ap, long), e = va_arg(ap, long), f = va_arg(ap, long);
    va_end(ap);
    if (number == SYS_getrandom) {
        fill((void *)a, (size_t)b);
        return b;
    }
    if (!real) real = (long (*)(long, ...))dlsym(RTLD_NEXT, "syscall");
    return real(number, a, b, c, d, e, f);
}

__attribute__((destructor)) static void report(void) {
    const char *p = getenv("VERIF_SHIM_LOG");
    if (p) {
        FILE *f = fopen(p, "a");
        if (f) { fprintf(f, "%lu\n", served); fclose(f); }
    }
}
