#!/bin/bash
# Sensitivity self-test: apply every seeded change under /verif/seeded to /repo in turn, run the
# quick check of the property it breaks, undo it. A change is "caught" if the check exits 1 with a
# VIOLATION line. Takes about a minute per change. Usage: selftest_seeded.sh [name-prefix]
cd /verif || exit 2
fail=0
for d in seeded/${1:-}*/; do
  n=$(basename "$d")
  prop=$(python3 -c "import json,sys; print(json.load(open('$d/meta.json')).get('breaks_property') or json.load(open('$d/meta.json'))['property'])")
  out=$(NO_REBUILD=1 ./run_seeded.sh "$n" "$prop" quick 2>&1)
  rc=$(echo "$out" | grep -o "exit=[0-9]*" | tail -1)
  if [ "$rc" = "exit=1" ] && grep -q "^VIOLATION property=$prop" "/verif/target/seeded-$n-$prop.log"; then
    echo "caught   $prop $n"
  else
    echo "MISSED   $prop $n ($rc)"; fail=1
  fi
done
git -C /repo status --porcelain | grep -q . && { echo "/repo left dirty!"; exit 2; }
# no binary with a seeded change compiled in is left behind
cargo build --release --offline >/dev/null 2>&1
exit $fail
