#!/bin/bash
# ingest_seeded.sh <worktree> <name> <prop> [tier]: copy a sub-agent's _seeded/ into /verif/seeded/<name>, run the
# check against it, record the outcome in meta.json, and drop the replays/evidence that run wrote.
set -u
wt=$1; n=$2; prop=$3; tier=${4:-quick}
mkdir -p /verif/seeded/$n && cp -r $wt/_seeded/* /verif/seeded/$n/
cd /verif
out=$(./run_seeded.sh $n $prop $tier 2>&1); rc=$?
echo "$out" | cut -c1-300 | head -8
python3 - "$n" "$prop" "$tier" "$rc" <<PY
import json,sys
n,prop,tier,rc=sys.argv[1:5]
p=f'/verif/seeded/{n}/meta.json'
m=json.load(open(p))
m['breaks_property']=prop
m['verif_cmd']=f'./run_seeded.sh {n} {prop} {tier}'
log=open(f'/verif/target/seeded-{n}-{prop}.log').read().splitlines()
v=[l for l in log if l.startswith('violation')]
m['verif_result']=('caught: exit 1; '+'; '.join(x[:200] for x in v[:3])) if rc=='1' else f'NOT caught (exit {rc})'
json.dump(m,open(p,'w'),indent=1)
PY
git -C /verif checkout -- evidence 2>/dev/null
git -C /verif clean -fdq replays
exit $rc
